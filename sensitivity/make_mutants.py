#!/usr/bin/env python3
"""Generates the sensitivity mutants (DESIGN.md Appendix D) as patches against
/repo's HEAD: each is a small, compiling, test-passing change that breaks C19
or C20. Usage: python3 make_mutants.py  (writes <name>.diff next to itself;
leaves /repo untouched)."""
import subprocess, os, sys
HERE = os.path.dirname(os.path.abspath(__file__))
ZI = "src/tz/db/zoneinfo/enabled.rs"
CC = "src/tz/db/concatenated/enabled.rs"
TZ = "src/tz/timezone.rs"
CACHE = "src/util/cache.rs"
BD = "src/tz/db/bundled/enabled.rs"

M = {}
def mut(name, prop, expect, edits):
    M[name] = (prop, expect, edits)

# ---- C19 -------------------------------------------------------------
mut("c19_zi_serve_expired", "C19", "freshness", [(ZI,
 "                if !czone.is_expired() {", "                if true {")])
mut("c19_cc_serve_expired", "C19", "freshness", [(CC,
 "                if !czone.is_expired() {", "                if true {")])
mut("c19_zi_revalidate_always_ok", "C19", "freshness", [(ZI,
 "        if old_last_modified != new_last_modified {", "        if false && old_last_modified != new_last_modified {")])
mut("c19_cc_revalidate_always_ok", "C19", "freshness", [(CC,
 "        if old_last_modified != new_last_modified {", "        if false && old_last_modified != new_last_modified {")])
mut("c19_zi_revalidate_only_newer", "C19", "freshness", [(ZI,
 "        if old_last_modified != new_last_modified {", "        if old_last_modified < new_last_modified {")])
mut("c19_zi_reset_keeps_zones", "C19", "freshness", [(ZI,
 "            names.reset();\n        }\n        zones.reset();", "            names.reset();\n        }\n        let _ = &mut zones;")])
mut("c19_zi_reset_expires_only", "C19", "freshness", [(ZI,
 "    fn reset(&mut self) {\n        self.zones.clear();\n    }\n}\n\n#[derive(Clone, Debug)]\nstruct CachedTimeZone {",
 "    fn reset(&mut self) {\n        for zone in self.zones.iter_mut() {\n            zone.expiration = Expiration::expired();\n        }\n    }\n}\n\n#[derive(Clone, Debug)]\nstruct CachedTimeZone {")])
mut("c19_zi_reset_keeps_names", "C19", "false_negative|completeness", [(ZI,
 "        if let Some(ref names) = self.names {\n            names.reset();\n        }\n        zones.reset();",
 "        zones.reset();")])
mut("c19_zi_never_refresh_names", "C19", "false_negative|completeness", [(ZI,
 "        if self.expiration.is_expired() {\n            self.refresh();\n        }",
 "        if false && self.expiration.is_expired() {\n            self.refresh();\n        }")])
mut("c19_zi_names_case_sensitive", "C19", "false_negative", [(ZI,
 "                utf8::cmp_ignore_ascii_case(&n.inner.lower, query)",
 "                n.inner.lower.as_str().cmp(query)")])
mut("c19_zi_revalidate_never_ok", "C19", "reuse", [(ZI,
 "        self.expiration = Expiration::after(ttl);\n        true\n    }",
 "        self.expiration = Expiration::after(ttl);\n        false\n    }")])
mut("c19_zi_self_deadlock", "C19", "deadlock", [(ZI,
 "        {\n            #[cfg(jiff_verif)]\n            crate::verif::acquire_read(&self.zones, \"zi.get.zones_read\");\n            let zones = self.zones.read().unwrap();",
 "        #[cfg(jiff_verif)]\n        crate::verif::acquire_read(&self.zones, \"zi.get.zones_read\");\n        let zones_read_guard = self.zones.read().unwrap();\n        {\n            let zones = &zones_read_guard;")])
mut("c19_zi_lock_order_inversion", "C19", "deadlock", [
 (ZI, "        #[cfg(jiff_verif)]\n        crate::verif::acquire_write(&self.zones, \"zi.reset.zones\");\n        let mut zones = self.zones.write().unwrap();\n        if let Some(ref names) = self.names {\n            names.reset();\n        }\n        zones.reset();",
      "        if let Some(ref names) = self.names {\n            #[cfg(jiff_verif)]\n            crate::verif::acquire_write(&names.inner, \"zi.names.reset\");\n            let mut inner = names.inner.write().unwrap();\n            #[cfg(jiff_verif)]\n            crate::verif::acquire_write(&self.zones, \"zi.reset.zones\");\n            let mut zones = self.zones.write().unwrap();\n            inner.reset();\n            zones.reset();\n        }"),
 (ZI, "        let info = names.get(query)?;\n        #[cfg(jiff_verif)]\n        crate::verif::acquire_write(&self.zones, \"zi.get.zones_write\");\n        let mut zones = self.zones.write().unwrap();",
      "        #[cfg(jiff_verif)]\n        crate::verif::acquire_write(&self.zones, \"zi.get.zones_write\");\n        let mut zones = self.zones.write().unwrap();\n        let info = names.get(query)?;"),
])
mut("c19_stat_after_read_zi", "C19", "freshness", [
 (ZI, "        #[cfg(jiff_verif)]\n        crate::verif::point(\"zi.new.stat\");\n        let last_modified = util::fs::last_modified_from_file(path, &file);\n        let mut data = vec![];",
      "        let mut data = vec![];"),
 (ZI, "        file.read_to_end(&mut data).map_err(|e| Error::io(e).path(path))?;",
      "        file.read_to_end(&mut data).map_err(|e| Error::io(e).path(path))?;\n        #[cfg(jiff_verif)]\n        crate::verif::point(\"zi.new.stat\");\n        let last_modified = util::fs::last_modified_from_file(path, &file);"),
])
mut("c19_stat_after_read_cc", "C19", "freshness", [
 (CC, "        #[cfg(jiff_verif)]\n        crate::verif::point(\"cc.new.stat\");\n        let last_modified = util::fs::last_modified_from_file(path, &file);\n        let db = ConcatenatedTzif::open(&file)?;",
      "        let db = ConcatenatedTzif::open(&file)?;"),
 (CC, "            return Ok(None);\n        };\n        let expiration = Expiration::after(ttl);",
      "            return Ok(None);\n        };\n        #[cfg(jiff_verif)]\n        crate::verif::point(\"cc.new.stat\");\n        let last_modified = util::fs::last_modified_from_file(path, &file);\n        let expiration = Expiration::after(ttl);"),
])
mut("c19_ttl_doubled_on_revalidate", "C19", "freshness", [(ZI,
 "        self.expiration = Expiration::after(ttl);\n        true\n    }",
 "        self.expiration = Expiration::after(ttl * 2);\n        true\n    }")])
mut("c19_zi_names_unsorted", "C19", "false_negative", [(ZI,
 "        names.sort();\n        Ok(names)", "        Ok(names)")])
mut("c19_zi_zone_insert_front", "C19", "reuse|freshness", [(ZI,
 "                zones.zones.insert(i, czone);", "                let _ = i;\n                zones.zones.insert(0, czone);")])
mut("c19_cc_reset_keeps_zones", "C19", "freshness", [(CC,
 "            names.reset();\n        }\n        zones.reset();", "            names.reset();\n        }\n        let _ = &mut zones;")])
# (Dropped: "is_expired returns false when the clock is missing *now* but was
# present when the entry was made" -- unreachable, clock availability does not
# change within a process. Dropped: bundled cache inserts at the wrong index
# -- lookups compare names, so answers stay right; only reuse suffers.)
mut("c19_bundled_prefix_compare", "C19", "bundled_answer", [(BD,
 "                utf8::cmp_ignore_ascii_case(&entry.name, query)",
 "                utf8::cmp_ignore_ascii_case(\n                    &entry.name[..entry.name.len().min(8)],\n                    &query[..query.len().min(8)],\n                )")])

mut("c19_zi_stale_on_reload_error", "C19", "freshness", [(ZI,
 "                            \"failed to re-cache time zone from file {}: {_err}\",\n                            info.inner.full.display(),\n                        );\n                        return None;",
 "                            \"failed to re-cache time zone from file {}: {_err}\",\n                            info.inner.full.display(),\n                        );\n                        return Some(zones.zones[i].tz.clone());")])
mut("c19_zi_no_mtime_means_unchanged", "C19", "freshness", [(ZI,
 "                info.inner.full.display(),\n            );\n            return false;\n        };\n        #[cfg(jiff_verif)]\n        crate::verif::point(\"zi.revalidate.stat\");",
 "                info.inner.full.display(),\n            );\n            return true;\n        };\n        #[cfg(jiff_verif)]\n        crate::verif::point(\"zi.revalidate.stat\");")])
mut("c19_cc_stale_on_reload_error", "C19", "freshness", [(CC,
 "                            path = path.display(),\n                        );\n                        return None;\n                    }\n                };\n                let tz = czone.tz.clone();\n                zones.zones[i] = czone;",
 "                            path = path.display(),\n                        );\n                        return Some(zones.zones[i].tz.clone());\n                    }\n                };\n                let tz = czone.tz.clone();\n                zones.zones[i] = czone;")])

mut("c19_zi_walk_lists_non_tzif", "C19", "completeness|freshness|false_negative", [(ZI,
 "            if !is_possibly_tzif(&buf) {", "            if false && !is_possibly_tzif(&buf) {")])
mut("c19_zi_walk_unwraps_non_utf8_name", "C19", "panic|open_failed", [(ZI,
 "                    Err(err) => {\n                        seterr(&path, err);\n                        continue;\n                    }",
 "                    Err(err) => {\n                        panic!(\"unexpected file name: {err}\");\n                    }")])

mut("c19_zi_revalidate_returns_bitwise_copy", "C19", "dangling_zone|crash|zone_leak|panic", [(ZI,
 "                    #[cfg(jiff_verif)]\n                    crate::verif::point(\"zi.get.revalidate_ok\");\n                    return Some(czone.tz.clone());",
 "                    #[cfg(jiff_verif)]\n                    crate::verif::point(\"zi.get.revalidate_ok\");\n                    return Some(unsafe { czone.tz.copy() });")])
mut("c19_cc_reset_forgets_entries", "C19", "zone_leak", [(CC,
 "    fn reset(&mut self) {\n        self.zones.clear();\n    }\n\n    fn scratch",
 "    fn reset(&mut self) {\n        core::mem::forget(core::mem::take(&mut self.zones));\n    }\n\n    fn scratch")])

# ---- C20 -------------------------------------------------------------
mut("c20_clone_tzif_no_increment", "C20", "premature_free|double_free", [(TZ,
 "                    unsafe {\n                        Arc::increment_strong_count(ptr.cast::<TzifOwned>());\n                    }\n                    Repr { ptr: self.ptr }",
 "                    let _ = ptr;\n                    Repr { ptr: self.ptr }")])
mut("c20_clone_posix_no_increment", "C20", "premature_free|double_free", [(TZ,
 "                    unsafe {\n                        Arc::increment_strong_count(\n                            ptr.cast::<PosixTimeZoneOwned>(),\n                        );\n                    }\n                    Repr { ptr: self.ptr }",
 "                    let _ = ptr;\n                    Repr { ptr: self.ptr }")])
mut("c20_drop_tzif_no_decrement", "C20", "leak", [(TZ,
 "                    unsafe {\n                        Arc::decrement_strong_count(ptr.cast::<TzifOwned>());\n                    }",
 "                    let _ = ptr;")])
mut("c20_drop_posix_no_decrement", "C20", "leak", [(TZ,
 "                    unsafe {\n                        Arc::decrement_strong_count(\n                            ptr.cast::<PosixTimeZoneOwned>(),\n                        );\n                    }\n                }\n                _ => {\n                    debug_assert!(false, \"drop: invalid",
 "                    let _ = ptr;\n                }\n                _ => {\n                    debug_assert!(false, \"drop: invalid")])
# N.B. `(addr >> 4) as i32` (the variant named in DESIGN.md Appendix D) is
# behaviourally identical on 64-bit targets: the usize was sign-extended from
# an i32, so truncating after a logical shift gives the same bits. The 32-bit
# logical shift below is the variant that changes behaviour on x86_64.
mut("c20_get_fixed_logical_shift", "C20", "fixed_offset|answer", [(TZ,
 "t::SpanZoneOffset::new_unchecked((addr as i32) >> 4);", "t::SpanZoneOffset::new_unchecked(((addr as u32) >> 4) as i32);")])
mut("c20_fixed_shift_3", "C20", "fixed_offset|answer", [(TZ,
 "                seconds.checked_shl(4),", "                seconds.checked_shl(3),")])
mut("c20_eq_tags_only", "C20", "eq_value", [(TZ,
 "            if self.tag() != other.tag() {\n                return false;\n            }\n            each! {",
 "            if self.tag() != other.tag() {\n                return false;\n            }\n            if self.tag() >= Repr::FIXED {\n                return true;\n            }\n            each! {")])
mut("c20_into_ambiguous_leaks", "C20", "leak", [(TZ,
 "    pub fn into_ambiguous_zoned(self, dt: DateTime) -> AmbiguousZoned {",
 "    pub fn into_ambiguous_zoned(self, dt: DateTime) -> AmbiguousZoned {\n        core::mem::forget(self.clone());")])
mut("c20_drop_tags_swapped", "C20", "crash|premature_free|double_free|leak|panic", [
 (TZ, "                    unsafe {\n                        Arc::decrement_strong_count(ptr.cast::<TzifOwned>());\n                    }",
      "                    unsafe {\n                        Arc::decrement_strong_count(\n                            ptr.cast::<PosixTimeZoneOwned>(),\n                        );\n                    }"),
])
mut("c20_global_get_bitwise_copy", "C20", "premature_free|crash|use_after_free|double_free", [(TZ,
 "        crate::tz::db().get(time_zone_name)\n    }",
 "        let tz = crate::tz::db().get(time_zone_name)?;\n        // SAFETY: (mutant) wrong: `tz` is dropped right after.\n        Ok(unsafe { tz.copy() })\n    }")])
# A lock acquisition that no acquire_* call announces, taken while the same
# thread still holds a read guard of the same lock (recursive read).
mut("c19_zi_recursive_read_unannounced", "C19", "deadlock", [(ZI,
 "            if let Some(zone_info_name) = inner.get(query) {\n                return Some(zone_info_name);\n            }\n            drop(inner); // unlock",
 "            if let Some(zone_info_name) = inner.get(query) {\n                return Some(zone_info_name);\n            }\n            if !self.inner.read().unwrap().expiration.is_expired() {\n                return None;\n            }\n            drop(inner); // unlock")])

def main():
    os.chdir("/repo")
    dirty = subprocess.run(["git", "status", "--porcelain", "--untracked-files=no"], capture_output=True, text=True).stdout.strip()
    if dirty:
        print("refusing: /repo has uncommitted changes", file=sys.stderr); sys.exit(2)
    index = []
    for name, (prop, expect, edits) in M.items():
        try:
            for path, old, new in edits:
                s = open(path).read()
                if s.count(old) != 1:
                    raise SystemExit(f"{name}: anchor found {s.count(old)} times in {path}:\n{old}")
                open(path, "w").write(s.replace(old, new))
            diff = subprocess.run(["git", "diff"], capture_output=True, text=True).stdout
            open(os.path.join(HERE, name + ".diff"), "w").write(diff)
            index.append(f"{name}\t{prop}\t{expect}")
        finally:
            subprocess.run(["git", "checkout", "--", "."], check=True)
    open(os.path.join(HERE, "INDEX.tsv"), "w").write("\n".join(index) + "\n")
    print(f"wrote {len(index)} mutants")

if __name__ == "__main__":
    main()
