#!/bin/bash
# Applies each sensitivity mutant (or the patches given as arguments:
# "<patch> <C19|C20>" pairs are read from INDEX.tsv when no argument is
# given) to /repo, runs the property's quick check against it, and reverts.
# Evidence and replay files of these runs go to a scratch directory, never to
# /verif/evidence. Prints one line per mutant.
set -u
HERE="$(cd "$(dirname "$0")" && pwd)"
OUT="${MUTANT_OUT:-/dev/shm/jiffsim-mutants}"
mkdir -p "$OUT"
if [ -n "$(git -C /repo status --porcelain --untracked-files=no)" ]; then
  echo "refusing: /repo has uncommitted changes" >&2; exit 2
fi
trap 'git -C /repo checkout -- . ; rm -rf "$OUT"' EXIT
run_one() {
  local patch="$1" prop="$2" expect="$3" name
  name="$(basename "$patch" .diff)"
  if ! git -C /repo apply "$patch" 2>"$OUT/apply.err"; then
    echo "$name $prop APPLY-FAILED $(head -1 "$OUT/apply.err")"; return
  fi
  local start=$SECONDS
  /verif/check "$prop" quick --evidence "$OUT/ev.json" --replays "$OUT/replays" ${MUTANT_ARGS:-} >"$OUT/log" 2>&1
  local code=$?
  git -C /repo checkout -- .
  local clause
  clause="$(grep -m1 '^violated clause:' "$OUT/log" | sed 's/violated clause: //')"
  local verdict="MISSED"
  if [ $code -eq 1 ]; then
    verdict="caught"
    if [ -n "$expect" ] && ! echo "$clause" | grep -Eq "^($expect)$"; then verdict="caught(other-clause)"; fi
  elif [ $code -ne 0 ]; then
    verdict="ERROR($code): $(grep -m1 HARNESS-ERROR "$OUT/log")"
  fi
  local runs
  runs="$(grep -Eo '[0-9]+ runs in [0-9.]+s' "$OUT/log" | tail -1)"
  echo "$name $prop $verdict clause=${clause:-none} ($runs, $((SECONDS-start))s total)"
  rm -rf "$OUT/replays"
}
if [ $# -gt 0 ]; then
  while [ $# -gt 1 ]; do run_one "$1" "$2" ""; shift 2; done
else
  while IFS=$'\t' read -r name prop expect; do
    [ -n "$name" ] || continue
    if [ -n "${MUTANT_FILTER:-}" ] && ! echo "$name" | grep -Eq "$MUTANT_FILTER"; then continue; fi
    run_one "$HERE/$name.diff" "$prop" "$expect"
  done < "$HERE/INDEX.tsv"
fi
