#!/bin/bash
# Determinism proof: the same (VERIF_SEED, run index) must give the same
# fingerprint (full event log + every operation's interval, clock and result)
# in different processes and with different worker counts.
# usage: ./determinism.sh [runs] [seed]
set -u
cd "$(dirname "$0")"
runs="${1:-20000}"; seed="${2:-7}"
out="/dev/shm/jiffsim-det-$$"; mkdir -p "$out"
./check build || exit 2
BIN="${CARGO_TARGET_DIR:-/verif/target}/release/jiffsim"
bad=0
for prop in c19 c20; do
  pbad=0
  i=0
  for w in 1 16 5 16; do
    i=$((i+1))
    "$BIN" $prop --seed "$seed" --runs "$runs" --runs-fault-free 1 --workers $w --fplog "$out/$prop.$i" \
       --evidence "$out/ev.json" --replays "$out/rp" >/dev/null 2>&1 || { echo "$prop workers=$w: run failed"; bad=1; }
  done
  for i in 2 3 4; do
    if cmp -s "$out/$prop.1" "$out/$prop.$i"; then :; else echo "$prop: fingerprint logs 1 and $i DIFFER"; diff "$out/$prop.1" "$out/$prop.$i" | head -5; bad=1; pbad=1; fi
  done
  echo "$prop: $(wc -l < "$out/$prop.1") runs, 4 executions (workers 1,16,5,16): $([ $pbad -eq 0 ] && echo identical || echo DIVERGED)"
done
rm -rf "$out"
exit $bad
