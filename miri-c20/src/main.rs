//! C20, Miri tier: the same program generator and operation interpreter as
//! the native simulator, but on real `std::thread`s under Miri's seeded
//! scheduler (run with `-Zmiri-many-seeds`), which preempts inside the
//! atomics and reports use-after-free, double free, leaks, data races and
//! invalid tagged-pointer use directly. The answer and equality oracles are
//! the same as in the native tier; the memory oracle is Miri itself.
//!
//! usage: jiffmiri <verif_seed> <first_program> <programs>

#[path = "/verif/sim/src/rng.rs"]
mod rng;
#[path = "/verif/sim/src/zonegen.rs"]
mod zonegen;
mod c20 {
    #[path = "/verif/sim/src/c20/interp.rs"]
    pub mod interp;
    #[path = "/verif/sim/src/c20/prog.rs"]
    pub mod prog;
}

use std::collections::{HashMap, VecDeque};
use std::sync::atomic::{AtomicU32, Ordering};
use std::sync::{Arc, Mutex};

use c20::interp::{self, Env, Slot, Slots};
use c20::prog::*;
use c20::prog::generate_small;
use jiff::tz::TimeZone;

struct Shared {
    chans: Vec<Mutex<VecDeque<Slot>>>,
    shared: Mutex<Option<Slot>>,
    refs: Mutex<HashMap<Spec, TimeZone>>,
    eq_seen: Mutex<HashMap<(u32, u32), bool>>,
    failures: Mutex<Vec<String>>,
    next_zone: AtomicU32,
    last_spec: Mutex<HashMap<u8, Spec>>,
}

struct MiriEnv {
    sh: Arc<Shared>,
}

impl Env for MiriEnv {
    fn pre_new(&mut self, _spec: &Spec) {}
    fn post_new(&mut self, _spec: &Spec, _tz: &TimeZone) -> u32 {
        self.sh.next_zone.fetch_add(1, Ordering::Relaxed)
    }
    fn handles(&mut self, _zone: u32, _delta: i32) {}
    fn check_answer(&mut self, spec: &Spec, q: u8, t: u8, got: String) {
        let want = {
            let mut refs = self.sh.refs.lock().unwrap();
            let tz = refs.entry(spec.clone()).or_insert_with(|| interp::make_tz(spec));
            interp::answer(tz, q, t)
        };
        if want != got {
            self.fail(
                "answer",
                format!("query {q} at {t} on {spec:?}: got {got:?}, reference {want:?}"),
            );
        }
    }
    fn eq_result(&mut self, a: (&Spec, u32), b: (&Spec, u32), ab: bool, ba: bool) {
        if ab != ba {
            self.fail("eq_symmetric", format!("{:?} vs {:?}", a.0, b.0));
        }
        if a.1 == b.1 && !ab {
            self.fail("eq_same_zone", format!("{:?}", a.0));
        }
        if a.0.class() == b.0.class() && ab != (a.0.canon() == b.0.canon()) {
            self.fail("eq_value", format!("{:?} == {:?} is {ab}", a.0, b.0));
        }
        let key = (a.1.min(b.1), a.1.max(b.1));
        let prev = self.sh.eq_seen.lock().unwrap().insert(key, ab);
        if prev.map_or(false, |p| p != ab) {
            self.fail("eq_stable", format!("{:?} vs {:?}", a.0, b.0));
        }
    }
    fn fail(&mut self, clause: &'static str, detail: String) {
        self.sh.failures.lock().unwrap().push(format!("{clause}: {detail}"));
    }
    fn send(&mut self, to: u8, slot: Slot) {
        let n = self.sh.chans.len();
        self.sh.chans[to as usize % n].lock().unwrap().push_back(slot);
    }
    fn recv(&mut self, me: u8) -> Option<Slot> {
        let n = self.sh.chans.len();
        self.sh.chans[me as usize % n].lock().unwrap().pop_front()
    }
    fn swap_shared(&mut self, slot: Option<Slot>) -> Option<Slot> {
        std::mem::replace(&mut *self.sh.shared.lock().unwrap(), slot)
    }
    fn checkpoint(&mut self, _what: &'static str) -> bool {
        true
    }
    fn api_panic(&mut self, _api: &'static str) {}
    fn last_spec(&mut self, me: u8, set: Option<&Spec>) -> Option<Spec> {
        let mut m = self.sh.last_spec.lock().unwrap();
        match set {
            Some(s) => m.insert(me, s.clone()),
            None => m.get(&me).cloned(),
        }
    }
    fn db_get(&mut self, _name: u8, _case: u8) -> Option<(TimeZone, u32)> {
        None
    }
    fn db_reset(&mut self) {}
    fn db_advance(&mut self, _step: u8) {}
    fn db_touch(&mut self, _name: u8) {}
    fn no_alloc_begin(&mut self) {}
    fn no_alloc_end(&mut self, _what: &'static str) {}
}

struct CrashMarker;

fn run_program(case: &Case) -> Vec<String> {
    let sh = Arc::new(Shared {
        chans: (0..case.threads.len()).map(|_| Mutex::new(VecDeque::new())).collect(),
        shared: Mutex::new(None),
        refs: Mutex::new(HashMap::new()),
        eq_seen: Mutex::new(HashMap::new()),
        failures: Mutex::new(vec![]),
        next_zone: AtomicU32::new(0),
        last_spec: Mutex::new(HashMap::new()),
    });
    let mut joins = vec![];
    for (i, ops) in case.threads.iter().enumerate() {
        let ops = ops.clone();
        let sh = sh.clone();
        joins.push(std::thread::spawn(move || {
            let mut env = MiriEnv { sh };
            let mut slots: Slots = (0..SLOTS).map(|_| None).collect();
            for op in ops.iter() {
                std::thread::yield_now();
                if interp::apply(i as u8, op, &mut slots, &mut env) {
                    // Crash fault: unwinding drops `slots`.
                    std::panic::panic_any(CrashMarker);
                }
            }
        }));
    }
    for j in joins {
        let _ = j.join();
    }
    let sh = Arc::try_unwrap(sh).ok().expect("all threads joined");
    // Dropping `sh` drops the channels, the shared slot and the references.
    let failures = std::mem::take(&mut *sh.failures.lock().unwrap());
    drop(sh);
    failures
}

/// Directed race rounds: `n` threads each own one handle of the same heap
/// zone, meet at a barrier, and then drop / clone / query their handles at
/// the same time. Miri's seeded scheduler (with preemption) interleaves the
/// threads *inside* clone and drop; a lost count shows up as a leak, a
/// double free or a use-after-free, a non-atomic access as a data race.
fn race_rounds(full: bool) -> usize {
    let specs = [
        Spec::Posix(0),
        // Three explicit transitions and a footer rule: instants 0, 1, 2 of
        // the probe set fall into three different table entries.
        Spec::TzifFooter(1),
        Spec::TzifSynth { k: 1, tr: true },
        Spec::TzifReal(10),
    ];
    // The small set (quick tier): the two heap kinds, two threads,
    // drop/drop and clone+drop/clone+drop.
    let specs = if full { &specs[..] } else { &specs[..2] };
    let threads: &[usize] = if full { &[2, 3] } else { &[2] };
    let patterns: &[u8] = if full { &[0, 1, 2, 3, 4, 5] } else { &[0, 1, 3, 4] };
    let mut rounds = 0;
    for spec in specs.iter() {
        // What a lone thread gets (from an instance of its own).
        let want_at: Vec<Vec<String>> = {
            let lone = interp::make_tz(spec);
            (0..2u8)
                .map(|q| (0..8u8).map(|t| interp::answer(&lone, q, t)).collect())
                .collect()
        };
        for &n in threads {
            for &pattern in patterns {
                // The zone under test is not queried before the threads start
                // (a zone that completes itself lazily on first use must do
                // so safely when the first uses race); the expected answer
                // comes from a separate instance.
                let want = interp::answer(&interp::make_tz(spec), 1, 3);
                // Patterns 4 and 5: every thread asks about *other* instants
                // than its neighbours (other transitions of the same zone),
                // repeatedly, and each answer must be the one a lone thread
                // gets. Pattern 5 adds a thread hammering a different zone.
                let foreign_spec = Spec::TzifReal(8);
                let foreign_want: Vec<String> = if pattern == 5 {
                    let lone = interp::make_tz(&foreign_spec);
                    (0..8u8).map(|t| interp::answer(&lone, 1, t)).collect()
                } else {
                    vec![]
                };
                let foreign = if pattern == 5 {
                    let tz = interp::make_tz(&foreign_spec);
                    let want = foreign_want.clone();
                    Some(std::thread::spawn(move || {
                        for round in 0..2u8 {
                            for t in [0u8, 6, 1, 3] {
                                let got = interp::answer(&tz, 1, t);
                                assert_eq!(got, want[t as usize], "answer of a zone changed while another zone was queried (round {round})");
                            }
                        }
                    }))
                } else {
                    None
                };
                let tz = interp::make_tz(spec);
                let handles: Vec<TimeZone> = (0..n).map(|_| tz.clone()).collect();
                drop(tz);
                let barrier = Arc::new(std::sync::Barrier::new(n));
                let mut joins = vec![];
                for (i, h) in handles.into_iter().enumerate() {
                    let b = barrier.clone();
                    let want = want.clone();
                    let want_at = want_at.clone();
                    joins.push(std::thread::spawn(move || {
                        b.wait();
                        match pattern {
                            4 | 5 => {
                                // Each thread stays with one instant, and
                                // neighbours with other ones (instants 0, 1
                                // and 2 lie in three different entries of the
                                // transition table of the footer zones), so
                                // that any per-zone or global "last lookup"
                                // state flips back and forth between them.
                                let t = (i % 3) as u8;
                                for round in 0..6u8 {
                                    let q = round % 2;
                                    let got = interp::answer(&h, q, t);
                                    assert_eq!(
                                        got, want_at[q as usize][t as usize],
                                        "query {q} at instant {t} answered differently while other threads queried the same zone"
                                    );
                                }
                                drop(h);
                            }
                            0 => drop(h),
                            1 => {
                                let c = h.clone();
                                drop(h);
                                drop(c);
                            }
                            2 => {
                                if i % 2 == 0 {
                                    let c = h.clone();
                                    drop(c);
                                }
                                drop(h);
                            }
                            _ => {
                                let got = interp::answer(&h, 1, 3);
                                assert_eq!(got, want, "answer changed under concurrency");
                                drop(h);
                            }
                        }
                    }));
                }
                for j in joins {
                    j.join().expect("race thread panicked");
                }
                if let Some(f) = foreign {
                    f.join().expect("race thread (other zone) panicked");
                }
                rounds += 1;
            }
        }
    }
    rounds
}

fn main() {
    let args: Vec<String> = std::env::args().collect();
    if args.get(1).map(|s| s.as_str()) == Some("race") {
        let full = args.get(2).map(|s| s.as_str()) != Some("small");
        let rounds = race_rounds(full);
        println!("MIRI-DONE race rounds={rounds} failures=0");
        return;
    }
    let seed: u64 = args.get(1).and_then(|s| s.parse().ok()).unwrap_or(1);
    let first: u64 = args.get(2).and_then(|s| s.parse().ok()).unwrap_or(0);
    let count: u64 = args.get(3).and_then(|s| s.parse().ok()).unwrap_or(2);
    std::panic::set_hook(Box::new(|info| {
        if !info.payload().is::<CrashMarker>() {
            eprintln!("panic: {info}");
        }
    }));
    let mut bad = 0;
    let mut ops = 0usize;
    for i in first..first + count {
        let mut r = rng::Rng::new(rng::mix(seed, i ^ 0x4D49_5249));
        let case = generate_small(&mut r);
        ops += case.threads.iter().map(|t| t.len()).sum::<usize>();
        let failures = run_program(&case);
        for f in failures.iter() {
            println!("MIRI-FAIL program={i} {f}");
            bad += 1;
        }
    }
    println!("MIRI-DONE seed={seed} programs={first}..{} ops={ops} failures={bad}", first + count);
    if bad > 0 {
        std::process::exit(1);
    }
}
