#!/bin/bash
# Zero-alarm soak on the unchanged tree: the quick tier of both properties
# under many VERIF_SEED values (evidence/replays go to a scratch directory).
# usage: ./soak.sh <first seed> <count>   (exit 1 if any seed raised an alarm)
set -u
cd "$(dirname "$0")"
first="${1:-100}"; count="${2:-20}"
out="${SOAK_OUT:-/dev/shm/jiffsim-soak-$$}"
mkdir -p "$out"
./check build || exit 2
BIN="${CARGO_TARGET_DIR:-/verif/target}/release/jiffsim"
bad=0
for ((s=first; s<first+count; s++)); do
  for prop in c19 c20; do
    "$BIN" "$prop" --tier "${SOAK_TIER:-quick}" --seed "$s" --evidence "$out/ev.json" --replays "$out/replays" >"$out/log" 2>&1
    code=$?
    echo "seed=$s $prop exit=$code $(tail -1 "$out/log")"
    if [ $code -ne 0 ]; then bad=1; grep -E "clause|detail|VIOLATION|HARNESS" "$out/log"; fi
  done
done
[ $bad -eq 0 ] && rm -rf "$out"
exit $bad
