#!/usr/bin/env python3
"""Writes /verif/MANIFEST.json (kept in a script so that the per-property
reasons live in one reviewed place). Run: python3 tools_make_manifest.py"""
import json, subprocess

hooks = subprocess.run(
    ["git", "-C", "/repo", "log", "--format=%H %s", "--grep", "^verif:"],
    capture_output=True, text=True).stdout.strip().splitlines()
hook_commits = [l.split()[0] for l in reversed(hooks)]

NA = {
 "C01": "pure function of a date (calendar arithmetic on integers): no schedule, clock, fault or I/O for a simulator to act on; decidable by enumeration, which is a different technique",
 "C02": "pure integer arithmetic on (timestamp, offset); nothing to schedule or fault",
 "C03": "pure function of (TZif/POSIX bytes already in memory, instant); loading the bytes is C19, the lookup itself has no nondeterminism",
 "C04": "pure function of (zone data, civil datetime, disambiguation strategy)",
 "C05": "universal over argument values and two build modes (a compiler flag, not a run-time fault); no schedule/clock/I/O involved",
 "C06": "pure function of (zone, zoned value, span)",
 "C07": "pure function of (a, b, largest unit)",
 "C08": "pure function of (civil value, span/duration)",
 "C09": "print/parse are pure functions of the value and an immutable zone",
 "C10": "pure function of (value, unit, increment, mode)",
 "C11": "pure function of (span, reference point, options)",
 "C12": "pure value-type arithmetic",
 "C13": "the 'histories' are compositions of pure functions on immutable Zoned values; no interleaving, time or fault can reorder or interrupt them",
 "C14": "pure function of (zone data, start instant, direction)",
 "C15": "print/parse are pure functions of (value, printer configuration)",
 "C16": "pure function of (value, format string)",
 "C17": "universal over byte strings handed to in-memory parsers; a torn or bit-flipped file is just another byte string, so fault injection would be fuzzing under another name (the one I/O-shaped piece, the concatenated reader against a file changing underneath, is exercised inside C19)",
 "C18": "equivalence across build configurations and data encodings; no schedule or fault distinguishes the cases (the database-vs-raw-bytes slice is checked inside C19 as a by-product, not claimed)",
}

def check(pid, engine, design, text, note, technique):
    return {
        "property_id": pid,
        "quick_cmd": f"./check {pid} quick",
        "thorough_cmd": f"./check {pid} thorough",
        "evidence_file": f"/verif/evidence/{pid}.json",
        "replay_cmd_template": "./check replay {path}",
        "engine": engine,
        "level_claimed": {"category": "exploration", "text": text, "design_ref": design},
        "level_note": note,
        "technique": technique,
    }

import os
checks = [
 check("C19", "jiffsim", "DESIGN.md section 3",
  "Seeded search over schedules and fault sequences: each run executes the real TimeZoneDatabase code (zoneinfo, concatenated, bundled) on a real tmpfs directory with 1-4 caller threads and 0-2 disk-mutator threads under a harness-owned scheduler (simulated threads are real OS threads, one running at a time), a simulated monotonic clock that crosses the (measured, see sim/src/c19/calib.rs) time-to-live exactly, a lock shim that makes every RwLock acquisition a scheduling point and models writer preference as a per-run knob, and 16 fault kinds (disk mutations incl. torn in-place rewrites and writer crashes, injected I/O errors, clock jumps, missing clock, restarts, resets); the recorded history is checked against the recorded disk states (freshness within one TTL / after reset, canonical identity, completeness of available(), reuse of unchanged files, hostile names, no panic / deadlock / unbounded steps). Sampling, not proof: a clean batch is evidence that the property holds on the explored interleavings.",
  "Trusted: std::fs + kernel tmpfs, std RwLock, Arc, jiff's in-memory TZif parser as the reference for 'which zone do these bytes denote'. Assumes A1-A8 of DESIGN.md section 7 (notably: every content change changes the mtime; the one same-mtime case checked is a deterministic probe: replacement with an unchanged mtime, then reset(), must be re-read). Code between two cfg(jiff_verif) sites is atomic in the simulation. EIO/EINTR/short reads and allocation failure are not injected.",
  "deterministic simulation with fault injection (seeded scheduler + simulated clock + faulted tmpfs, history oracle)"),
]
if os.path.exists("/verif/sim/src/c20/mod.rs"):
    checks.append(check("C20", "jiffsim", "DESIGN.md section 4",
  "Seeded search over programs x schedules: bounded programs (new/clone/clone_from/drop/move/eq/query incl. transition iterators whose items outlive them, 34 Zoned-producing and 9 in-place Zoned APIs, 16 two-value Zoned APIs, TimeZone->Zoned/AmbiguousZoned constructors, consuming AmbiguousZoned APIs, send/recv/swap between threads, thread crash) over TimeZone, Zoned and AmbiguousZoned values of every kind (UTC, unknown, fixed, POSIX incl. near-duplicate strings, TZif from bytes incl. same-name/different-data, footer-rule and static-twin zones, static zones as two get! expansions in two spellings, zones from a per-run TimeZoneDatabase through get and four parsing APIs, zones from the process-global database through TimeZone::get / in_tz / FromStr / strptime, the unnamed system zone) run on 1-4 simulated threads, each a real OS thread (own thread-locals) of which exactly one runs at a time; the hand-over at every operation boundary is decided by the run's PRNG and recorded. After every operation a counting global allocator is compared with a handle-count model (the block a heap zone's handles point into stays allocated while a handle exists and is freed exactly when the last handle goes, never twice; constructors returning memory of a freed zone reported; a kind whose holder the program cannot see -- the system zone -- is pinned: premature frees only), every query is compared with a reference handle, with documented constants and with the recorded answers of the pinned tree, and equality laws (reflexive, symmetric, stable, expected value within a kind) are checked; every batch also sweeps all 187,199 fixed offsets (incl. abbreviations against an independent formatter), runs three recording-free self-consistency checks and the recorded behaviour digest for each of 175 pooled zones, and compares each static zone with its twin and with the heap zone built from the same bytes. Both tiers (the thorough one at greater depth) re-run generated programs and directed clone/drop/query race rounds on free-running threads under Miri's seeded scheduler (use-after-free, double free, leaks, data races, invalid tagged pointers). Sampling, not proof.",
  "Trusted: Arc's atomics and the system allocator (native tier; Miri goes inside them), the counting allocator's bookkeeping, x86_64 only (A6). The native tier has scheduling points between operations only; which thread performs which clone/drop and the last drop is what schedules vary. Panics of Zoned arithmetic APIs are not C20 violations (counted in the evidence); the recorded answer table cannot flag the tree it was recorded from.",
  "deterministic simulation (seeded scheduler over handle programs, crash faults, allocator-level memory oracle; Miri tier)"))
else:
    NA["C20"] = "TEMPORARY: the C20 simulator (DESIGN.md section 4) is under construction in this commit; it is applicable and will be claimed"

manifest = {
 "version": 1,
 "setup_cmd": "./check build",
 "hooks": {
   "guard": "jiff_verif",
   "enable": "RUSTFLAGS='--cfg jiff_verif' (set in /verif/sim/.cargo/config.toml; jiff is a path dependency on /repo, so every check rebuilds from /repo's working tree)",
   "baseline_off_cmd": "cd /repo && cargo test --workspace --no-fail-fast --offline",
   "source_commits": hook_commits,
   "add_only": False,
 },
 "engines": [
   {"name": "jiffsim", "path": "/verif/sim", "serves_properties": [c["property_id"] for c in checks],
    "kind_free_text": "deterministic simulator: harness-owned seeded scheduler (random / PCT / explicit replay) handing a baton between real OS threads at the cfg(jiff_verif) sites (exactly one simulated thread runs at a time), simulated monotonic clock, seeded I/O error injection, real std::fs on tmpfs with an inode-aware shadow model, fault injection, history oracles, delta-debugging minimiser, replay files"},
 ],
 "checks": checks,
 "not_applicable": [{"property_id": k, "reason": v} for k, v in sorted(NA.items())],
 "notes": "Technique family fixed by the task: deterministic simulation with fault injection. All of jiff's nondeterminism lives in now.rs, tz/db/*, util/cache.rs, util/fs.rs and timezone.rs mod repr (DESIGN.md section 1); only C19 and C20 are anchored there. One genuine defect was found by the C19 simulator and repaired with a 'fix:' commit (see known-findings.txt).",
}
json.dump(manifest, open("/verif/MANIFEST.json", "w"), indent=1)
print("wrote MANIFEST.json with", len(checks), "checks and", len(NA), "not applicable")
