//! The batch driver shared by both properties: derives one per-run seed from
//! (VERIF_SEED, run index), fans runs out over worker OS threads (each one
//! an independent single-threaded simulator), collects statistics, and on a
//! violation minimises the case, writes the replay file and reports.

use std::collections::{BTreeMap, HashSet};
use std::path::PathBuf;
use std::sync::atomic::{AtomicU64, Ordering};
use std::sync::{Arc, Mutex};
use std::time::Instant;

use serde::{de::DeserializeOwned, Deserialize, Serialize};
use serde_json::{json, Value};

use crate::rng::{mix, Rng};
use crate::sim::{self, Policy};

pub const DEFAULT_SEED: u64 = 20_240_919;

#[derive(Clone, Debug, Serialize, Deserialize, PartialEq)]
pub struct SchedSpec {
    pub kind: String,
    pub stick: u8,
    pub depth: u8,
    pub est_len: u32,
    pub seed: u64,
    /// Explicit choice list (task id per scheduling decision); used when
    /// `kind == "replay"`.
    pub choices: Vec<u16>,
}

impl SchedSpec {
    pub fn draw(rng: &mut Rng, est_len: u32) -> SchedSpec {
        let seed = rng.next_u64();
        if rng.chance(35, 100) {
            SchedSpec {
                kind: "pct".into(),
                stick: 0,
                depth: 2 + rng.below(4) as u8,
                est_len,
                seed,
                choices: vec![],
            }
        } else {
            SchedSpec {
                kind: "random".into(),
                stick: *rng.pick(&[0u8, 0, 8, 12, 14]),
                depth: 0,
                est_len,
                seed,
                choices: vec![],
            }
        }
    }

    pub fn replay(choices: Vec<u16>) -> SchedSpec {
        SchedSpec {
            kind: "replay".into(),
            stick: 0,
            depth: 0,
            est_len: 0,
            seed: 0,
            choices,
        }
    }

    pub fn policy(&self) -> Policy {
        match self.kind.as_str() {
            "pct" => Policy::Pct { depth: self.depth, est_len: self.est_len },
            "replay" => Policy::Replay,
            _ => Policy::Random { stick: self.stick },
        }
    }
}

#[derive(Clone, Debug)]
pub struct Violation {
    pub clause: String,
    pub detail: String,
}

#[derive(Default)]
pub struct Stats {
    pub counters: BTreeMap<&'static str, u64>,
    pub fingerprints: HashSet<u64>,
    pub nontrivial_fingerprints: HashSet<u64>,
    pub runs: u64,
    pub steps: u64,
    pub switches: u64,
    pub sim_ns: u128,
    pub samples: Vec<Value>,
    /// (run index, fingerprint) of every run, when requested.
    pub fplog: Option<Vec<(u64, u64)>>,
}

impl Stats {
    pub fn add(&mut self, key: &'static str, n: u64) {
        *self.counters.entry(key).or_default() += n;
    }
    fn merge(&mut self, other: Stats) {
        for (k, v) in other.counters {
            *self.counters.entry(k).or_default() += v;
        }
        self.fingerprints.extend(other.fingerprints);
        self.nontrivial_fingerprints.extend(other.nontrivial_fingerprints);
        self.runs += other.runs;
        self.steps += other.steps;
        self.switches += other.switches;
        self.sim_ns += other.sim_ns;
        for s in other.samples {
            if self.samples.len() < 3 {
                self.samples.push(s);
            }
        }
        if let Some(log) = other.fplog {
            self.fplog.get_or_insert_with(Vec::new).extend(log);
        }
    }
}

pub struct Outcome {
    /// Fingerprint of the run: event log (task, site) sequence + results.
    pub fingerprint: u64,
    /// Non-trivial by the property's stated rule.
    pub nontrivial: bool,
    pub violations: Vec<Violation>,
    pub harness_error: Option<String>,
    pub choices: Vec<u16>,
    /// Human-readable trace for the replay file.
    pub trace: Value,
}

pub struct WorkerCtx {
    pub index: usize,
    /// Private scratch directory of this worker (on tmpfs).
    pub dir: PathBuf,
}

#[derive(Clone, Copy, Debug, PartialEq, Eq)]
pub enum Tier {
    Quick,
    Thorough,
}

pub trait Prop: Sync + Send + 'static {
    type Case: Serialize + DeserializeOwned + Clone + Send + Sync + 'static;
    fn id(&self) -> &'static str;
    /// Generates the case of one run.
    fn generate(&self, rng: &mut Rng, tier: Tier, run: u64) -> Self::Case;
    fn est_len(&self, case: &Self::Case) -> u32;
    /// Executes one case under one schedule and checks it.
    fn execute(
        &self,
        case: &Arc<Self::Case>,
        sched: &SchedSpec,
        ctx: &WorkerCtx,
        stats: Option<&mut Stats>,
        want_trace: bool,
    ) -> Outcome;
    /// Smaller variants of a failing case, most aggressive first.
    fn shrink(&self, case: &Self::Case) -> Vec<Self::Case>;
    /// Options that make `jiffsim worker` / `jiffsim exec-case` construct
    /// this property.
    fn worker_args(&self) -> Vec<String>;
    /// Execute minimisation candidates and replays in a child process
    /// (for properties whose violations can corrupt the process).
    fn isolate(&self) -> bool {
        false
    }
    fn size(&self, case: &Self::Case) -> usize;
}

pub struct Found<C> {
    pub run: u64,
    pub run_seed: u64,
    pub case: C,
    pub sched: SchedSpec,
    pub violations: Vec<Violation>,
    pub choices: Vec<u16>,
}

pub struct BatchResult<C> {
    pub stats: Stats,
    pub found: Option<Found<C>>,
    pub harness_error: Option<String>,
    pub wall_s: f64,
    pub workers: usize,
}

pub fn scratch_root() -> PathBuf {
    let shm = PathBuf::from("/dev/shm");
    let base = if shm.is_dir()
        && std::fs::metadata(&shm).map(|m| !m.permissions().readonly()).unwrap_or(false)
    {
        shm
    } else {
        PathBuf::from("/verif/work")
    };
    base.join(format!("jiffsim-{}", std::process::id()))
}

pub fn run_seed(verif_seed: u64, run: u64) -> u64 {
    mix(verif_seed, run.wrapping_add(0xC19C20))
}

/// What one run index means: its case and its schedule.
pub fn derive<P: Prop>(p: &P, verif_seed: u64, run: u64, tier: Tier) -> (P::Case, SchedSpec) {
    let base = Rng::new(run_seed(verif_seed, run));
    let case = p.generate(&mut base.fork(1), tier, run);
    let sched = SchedSpec::draw(&mut base.fork(2), p.est_len(&case));
    (case, sched)
}

/// One worker: a single-threaded process that executes the blocks of run
/// indices assigned to it (block `b` belongs to worker `b % workers`), so
/// which runs are executed never depends on timing. Results go to files in
/// `out` which the parent merges.
pub fn worker_loop<P: Prop>(
    p: &P,
    verif_seed: u64,
    tier: Tier,
    runs: u64,
    budget_s: f64,
    workers: u64,
    index: u64,
    want_fplog: bool,
    out: &std::path::Path,
) -> i32 {
    const BLOCK: u64 = 64;
    let start = Instant::now();
    let stop_file = out.parent().unwrap_or(out).join("STOP");
    let ctx = WorkerCtx { index: index as usize, dir: out.join("disk") };
    if let Err(e) = std::fs::create_dir_all(&ctx.dir) {
        eprintln!("HARNESS-ERROR: cannot create {}: {e}", ctx.dir.display());
        return 2;
    }
    let mut stats = Stats::default();
    if want_fplog {
        stats.fplog = Some(vec![]);
    }
    let mut harness_error: Option<String> = None;
    let mut found: Option<Found<P::Case>> = None;
    // Which run is executing, so that the parent can attribute a crash.
    let marker = if p.isolate() {
        std::fs::File::create(out.join("current")).ok()
    } else {
        None
    };
    let mut block = index;
    'outer: while block * BLOCK < runs {
        if stop_file.exists() || start.elapsed().as_secs_f64() > budget_s {
            break;
        }
        let lo = block * BLOCK;
        for run in lo..(lo + BLOCK).min(runs) {
            if let Some(m) = marker.as_ref() {
                use std::os::unix::fs::FileExt;
                let _ = m.write_all_at(&run.to_le_bytes(), 0);
            }
            let (case, sched) = derive(p, verif_seed, run, tier);
            let case = Arc::new(case);
            let want_sample = run < 2;
            let out = p.execute(&case, &sched, &ctx, Some(&mut stats), want_sample);
            stats.runs += 1;
            stats.fingerprints.insert(out.fingerprint);
            if out.nontrivial {
                stats.nontrivial_fingerprints.insert(out.fingerprint);
            }
            if let Some(log) = stats.fplog.as_mut() {
                log.push((run, out.fingerprint));
            }
            if want_sample {
                stats.samples.push(json!({
                    "run": run,
                    "run_seed": run_seed(verif_seed, run),
                    "case": serde_json::to_value(&*case).unwrap_or(Value::Null),
                    "scheduler": {"kind": sched.kind, "seed": sched.seed, "stick": sched.stick, "depth": sched.depth},
                    "trace": out.trace,
                }));
            }
            if let Some(e) = out.harness_error {
                harness_error = Some(format!("run {run}: {e}"));
                break 'outer;
            }
            if !out.violations.is_empty() {
                found = Some(Found {
                    run,
                    run_seed: run_seed(verif_seed, run),
                    case: (*case).clone(),
                    sched: sched.clone(),
                    violations: out.violations,
                    choices: out.choices,
                });
                break 'outer;
            }
        }
        block += workers;
    }
    let _ = std::fs::remove_dir_all(&ctx.dir);
    if found.is_some() || harness_error.is_some() {
        let _ = std::fs::write(&stop_file, b"stop");
    }
    // Results.
    let counters: BTreeMap<String, u64> =
        stats.counters.iter().map(|(k, v)| (k.to_string(), *v)).collect();
    let mut fps: Vec<u64> = stats.fingerprints.iter().copied().collect();
    fps.sort_unstable();
    let mut nt: Vec<u64> = stats.nontrivial_fingerprints.iter().copied().collect();
    nt.sort_unstable();
    let to_bytes = |v: &[u64]| -> Vec<u8> {
        v.iter().flat_map(|x| x.to_le_bytes()).collect()
    };
    let _ = std::fs::write(out.join("fp.bin"), to_bytes(&fps));
    let _ = std::fs::write(out.join("ntfp.bin"), to_bytes(&nt));
    if let Some(log) = stats.fplog.as_ref() {
        let flat: Vec<u64> = log.iter().flat_map(|&(r, f)| [r, f]).collect();
        let _ = std::fs::write(out.join("fplog.bin"), to_bytes(&flat));
    }
    let found_json = found.as_ref().map(|f| {
        json!({
            "run": f.run,
            "run_seed": f.run_seed,
            "case": serde_json::to_value(&f.case).unwrap(),
            "sched": serde_json::to_value(&f.sched).unwrap(),
            "violations": f.violations.iter().map(|v| json!([v.clause, v.detail])).collect::<Vec<_>>(),
            "choices": f.choices,
        })
    });
    let summary = json!({
        "counters": counters,
        "runs": stats.runs,
        "steps": stats.steps,
        "switches": stats.switches,
        "sim_ns": stats.sim_ns.to_string(),
        "samples": stats.samples,
        "harness_error": harness_error,
        "found": found_json,
    });
    // Written last and atomically: its presence means the worker finished.
    let tmp = out.join("summary.json.tmp");
    if std::fs::write(&tmp, serde_json::to_string(&summary).unwrap()).is_err()
        || std::fs::rename(&tmp, out.join("summary.json")).is_err()
    {
        eprintln!("HARNESS-ERROR: cannot write worker summary");
        return 2;
    }
    0
}

fn read_u64s(path: &std::path::Path) -> Vec<u64> {
    std::fs::read(path)
        .map(|b| {
            b.chunks_exact(8)
                .map(|c| u64::from_le_bytes(c.try_into().unwrap()))
                .collect()
        })
        .unwrap_or_default()
}

fn leak_key(k: &str) -> &'static str {
    // Counter names come from a small fixed set; leaking them once per
    // distinct name in the parent is fine.
    use std::sync::OnceLock;
    static KEYS: OnceLock<Mutex<BTreeMap<String, &'static str>>> = OnceLock::new();
    let m = KEYS.get_or_init(|| Mutex::new(BTreeMap::new()));
    let mut m = m.lock().unwrap();
    if let Some(v) = m.get(k) {
        return v;
    }
    let v: &'static str = Box::leak(k.to_string().into_boxed_str());
    m.insert(k.to_string(), v);
    v
}

/// Runs indices `0..runs` on `workers` single-threaded worker processes
/// (`jiffsim worker ...`, spawned with `worker_args` + the per-worker
/// options) and merges their results.
pub fn run_batch<P: Prop>(
    _p: Arc<P>,
    worker_args: &[String],
    verif_seed: u64,
    tier: Tier,
    runs: u64,
    budget_s: f64,
    workers: usize,
    want_fplog: bool,
) -> BatchResult<P::Case> {
    let start = Instant::now();
    static BATCH: AtomicU64 = AtomicU64::new(0);
    let root = scratch_root().join(format!("b{}", BATCH.fetch_add(1, Ordering::Relaxed)));
    let _ = std::fs::remove_dir_all(&root);
    let mut harness_error: Option<String> = None;
    if let Err(e) = std::fs::create_dir_all(&root) {
        harness_error = Some(format!("cannot create {}: {e}", root.display()));
    }
    let exe = std::env::current_exe().expect("current_exe");
    let mut children = vec![];
    if harness_error.is_none() {
        for w in 0..workers {
            let out = root.join(format!("w{w}"));
            let _ = std::fs::create_dir_all(&out);
            let mut cmd = std::process::Command::new(&exe);
            cmd.arg("worker")
                .args(worker_args)
                .arg("--seed")
                .arg(verif_seed.to_string())
                .arg("--tier")
                .arg(match tier {
                    Tier::Quick => "quick",
                    Tier::Thorough => "thorough",
                })
                .arg("--runs")
                .arg(runs.to_string())
                .arg("--budget")
                .arg(budget_s.to_string())
                .arg("--workers")
                .arg(workers.to_string())
                .arg("--index")
                .arg(w.to_string())
                .arg("--out")
                .arg(&out);
            if want_fplog {
                cmd.arg("--fplog").arg("1");
            }
            match cmd.spawn() {
                Ok(c) => children.push((w, c, out)),
                Err(e) => {
                    harness_error = Some(format!("cannot spawn worker: {e}"));
                    break;
                }
            }
        }
    }
    let mut stats = Stats::default();
    if want_fplog {
        stats.fplog = Some(vec![]);
    }
    let mut founds: Vec<Found<P::Case>> = vec![];
    for (w, mut c, out) in children {
        let status = c.wait();
        let ok = matches!(status, Ok(s) if s.success());
        let summary = std::fs::read_to_string(out.join("summary.json"))
            .ok()
            .and_then(|t| serde_json::from_str::<Value>(&t).ok());
        let Some(summary) = summary else {
            use std::os::unix::process::ExitStatusExt;
            let sig = status.as_ref().ok().and_then(|s| s.signal());
            let cur = std::fs::read(out.join("current"))
                .ok()
                .filter(|b| b.len() == 8)
                .map(|b| u64::from_le_bytes(b.try_into().unwrap()));
            match (_p.isolate(), sig, cur) {
                (true, Some(sig), Some(run)) => {
                    // The worker died inside run `run`: that is a finding.
                    let _ = std::fs::write(root.join("STOP"), b"stop");
                    let (case, sched) = derive(&*_p, verif_seed, run, tier);
                    founds.push(Found {
                        run,
                        run_seed: run_seed(verif_seed, run),
                        case,
                        sched,
                        violations: vec![Violation {
                            clause: "crash".into(),
                            detail: format!("the worker process was killed by signal {sig} while executing this run"),
                        }],
                        choices: vec![],
                    });
                }
                _ => {
                    harness_error.get_or_insert(format!(
                        "worker {w} left no summary (exit status {status:?})"
                    ));
                }
            }
            continue;
        };
        if !ok {
            harness_error.get_or_insert(format!("worker {w} failed: {status:?}"));
        }
        if let Some(e) = summary["harness_error"].as_str() {
            harness_error.get_or_insert(e.to_string());
        }
        if let Some(obj) = summary["counters"].as_object() {
            for (k, v) in obj {
                *stats.counters.entry(leak_key(k)).or_default() += v.as_u64().unwrap_or(0);
            }
        }
        stats.runs += summary["runs"].as_u64().unwrap_or(0);
        stats.steps += summary["steps"].as_u64().unwrap_or(0);
        stats.switches += summary["switches"].as_u64().unwrap_or(0);
        stats.sim_ns += summary["sim_ns"].as_str().and_then(|s| s.parse::<u128>().ok()).unwrap_or(0);
        if let Some(samples) = summary["samples"].as_array() {
            for s in samples {
                stats.samples.push(s.clone());
            }
        }
        stats.fingerprints.extend(read_u64s(&out.join("fp.bin")));
        stats.nontrivial_fingerprints.extend(read_u64s(&out.join("ntfp.bin")));
        if want_fplog {
            let flat = read_u64s(&out.join("fplog.bin"));
            let log = stats.fplog.as_mut().unwrap();
            for c in flat.chunks_exact(2) {
                log.push((c[0], c[1]));
            }
        }
        let f = &summary["found"];
        if f.is_object() {
            let case: Result<P::Case, _> = serde_json::from_value(f["case"].clone());
            let sched: Result<SchedSpec, _> = serde_json::from_value(f["sched"].clone());
            match (case, sched) {
                (Ok(case), Ok(sched)) => founds.push(Found {
                    run: f["run"].as_u64().unwrap_or(0),
                    run_seed: f["run_seed"].as_u64().unwrap_or(0),
                    case,
                    sched,
                    violations: f["violations"]
                        .as_array()
                        .map(|a| {
                            a.iter()
                                .map(|v| Violation {
                                    clause: v[0].as_str().unwrap_or("").to_string(),
                                    detail: v[1].as_str().unwrap_or("").to_string(),
                                })
                                .collect()
                        })
                        .unwrap_or_default(),
                    choices: f["choices"]
                        .as_array()
                        .map(|a| a.iter().map(|x| x.as_u64().unwrap_or(0) as u16).collect())
                        .unwrap_or_default(),
                }),
                _ => {
                    harness_error.get_or_insert("cannot decode a worker's finding".into());
                }
            }
        }
    }
    let _ = std::fs::remove_dir_all(&root);
    stats.samples.sort_by_key(|s| s["run"].as_u64().unwrap_or(u64::MAX));
    stats.samples.truncate(3);
    founds.sort_by_key(|f| f.run);
    BatchResult {
        stats,
        found: founds.into_iter().next(),
        harness_error,
        wall_s: start.elapsed().as_secs_f64(),
        workers,
    }
}

pub fn cleanup_scratch() {
    let _ = std::fs::remove_dir_all(scratch_root());
}

fn violations_to_json(v: &[Violation]) -> Value {
    Value::Array(v.iter().map(|v| json!([v.clause, v.detail])).collect())
}

fn violations_from_json(v: &Value) -> Vec<Violation> {
    v.as_array()
        .map(|a| {
            a.iter()
                .map(|v| Violation {
                    clause: v[0].as_str().unwrap_or("").to_string(),
                    detail: v[1].as_str().unwrap_or("").to_string(),
                })
                .collect()
        })
        .unwrap_or_default()
}

/// The `jiffsim exec-case` side of `exec_case`.
pub fn exec_case_child<P: Prop>(p: &P, input: &std::path::Path, output: &std::path::Path) -> i32 {
    let Ok(text) = std::fs::read_to_string(input) else { return 2 };
    let Ok(v) = serde_json::from_str::<Value>(&text) else { return 2 };
    let (Ok(case), Ok(sched)) = (
        serde_json::from_value::<P::Case>(v["case"].clone()),
        serde_json::from_value::<SchedSpec>(v["sched"].clone()),
    ) else {
        return 2;
    };
    let want_trace = v["want_trace"].as_bool().unwrap_or(false);
    let dir = PathBuf::from(v["dir"].as_str().unwrap_or("/dev/shm/jiffsim-exec"));
    let _ = std::fs::create_dir_all(&dir);
    let ctx = WorkerCtx { index: 0, dir };
    let out = p.execute(&Arc::new(case), &sched, &ctx, None, want_trace);
    let res = json!({
        "violations": violations_to_json(&out.violations),
        "harness_error": out.harness_error,
        "choices": out.choices,
        "trace": out.trace,
        "fingerprint": out.fingerprint,
    });
    if std::fs::write(output, serde_json::to_string(&res).unwrap()).is_err() {
        return 2;
    }
    0
}

/// Executes one case under one schedule: in this process, or (if the
/// property asks for isolation) in a child process whose death by a signal
/// is itself reported as a violation.
pub fn exec_case<P: Prop>(
    p: &P,
    case: &Arc<P::Case>,
    sched: &SchedSpec,
    ctx: &WorkerCtx,
    want_trace: bool,
) -> Outcome {
    if !p.isolate() {
        return p.execute(case, sched, ctx, None, want_trace);
    }
    let herr = |m: String| Outcome {
        fingerprint: 0,
        nontrivial: false,
        violations: vec![],
        harness_error: Some(m),
        choices: vec![],
        trace: Value::Null,
    };
    let _ = std::fs::create_dir_all(&ctx.dir);
    let input = ctx.dir.join("exec-in.json");
    let output = ctx.dir.join("exec-out.json");
    let _ = std::fs::remove_file(&output);
    let req = json!({
        "case": serde_json::to_value(&**case).unwrap(),
        "sched": serde_json::to_value(sched).unwrap(),
        "want_trace": want_trace,
        "dir": ctx.dir.join("child").to_string_lossy(),
    });
    if let Err(e) = std::fs::write(&input, serde_json::to_string(&req).unwrap()) {
        return herr(format!("cannot write {}: {e}", input.display()));
    }
    let exe = match std::env::current_exe() {
        Ok(e) => e,
        Err(e) => return herr(format!("current_exe: {e}")),
    };
    let status = std::process::Command::new(exe)
        .arg("exec-case")
        .args(p.worker_args())
        .arg("--in")
        .arg(&input)
        .arg("--out")
        .arg(&output)
        .stderr(std::process::Stdio::null())
        .status();
    let status = match status {
        Ok(s) => s,
        Err(e) => return herr(format!("cannot spawn exec-case: {e}")),
    };
    if !status.success() {
        use std::os::unix::process::ExitStatusExt;
        if let Some(sig) = status.signal() {
            return Outcome {
                fingerprint: 0,
                nontrivial: true,
                violations: vec![Violation {
                    clause: "crash".into(),
                    detail: format!("the process executing the case was killed by signal {sig}"),
                }],
                harness_error: None,
                choices: sched.choices.clone(),
                trace: Value::Null,
            };
        }
        return herr(format!("exec-case failed: {status:?}"));
    }
    let Some(v) = std::fs::read_to_string(&output)
        .ok()
        .and_then(|t| serde_json::from_str::<Value>(&t).ok())
    else {
        return herr("exec-case left no output".into());
    };
    Outcome {
        fingerprint: v["fingerprint"].as_u64().unwrap_or(0),
        nontrivial: false,
        violations: violations_from_json(&v["violations"]),
        harness_error: v["harness_error"].as_str().map(|s| s.to_string()),
        choices: v["choices"]
            .as_array()
            .map(|a| a.iter().map(|x| x.as_u64().unwrap_or(0) as u16).collect())
            .unwrap_or_default(),
        trace: v["trace"].clone(),
    }
}

/// Greedy delta-debugging of a failing case. A candidate is kept when the
/// same clause fails under the recorded choices or one of a few fresh
/// schedules.
pub fn minimise<P: Prop>(
    p: &P,
    found: &Found<P::Case>,
    ctx: &WorkerCtx,
    budget: usize,
) -> (P::Case, SchedSpec, Vec<Violation>, usize) {
    let clause = found.violations[0].clause.clone();
    let mut best_case = found.case.clone();
    let mut best_sched = SchedSpec::replay(found.choices.clone());
    let mut best_viol = found.violations.clone();
    let mut spent = 0usize;
    // First make sure the explicit schedule reproduces it.
    {
        let out = exec_case(p, &Arc::new(best_case.clone()), &best_sched, ctx, false);
        spent += 1;
        if !out.violations.iter().any(|v| v.clause == clause) {
            // Fall back to the original scheduler specification.
            best_sched = found.sched.clone();
        }
    }
    let mut progress = true;
    while progress && spent < budget {
        progress = false;
        for cand in p.shrink(&best_case) {
            if spent >= budget {
                break;
            }
            if p.size(&cand) >= p.size(&best_case) {
                continue;
            }
            let cand = Arc::new(cand);
            let mut tries: Vec<SchedSpec> = vec![best_sched.clone()];
            if found.sched.kind != "replay" {
                tries.push(found.sched.clone());
            }
            let mut r = Rng::new(mix(found.run_seed, spent as u64));
            let extra = if p.isolate() { 10 } else { 40 };
            for _ in 0..extra {
                tries.push(SchedSpec::draw(&mut r, p.est_len(&cand)));
            }
            for s in tries {
                let out = exec_case(p, &cand, &s, ctx, false);
                spent += 1;
                if out.harness_error.is_none()
                    && out.violations.iter().any(|v| v.clause == clause)
                {
                    best_case = (*cand).clone();
                    best_sched = SchedSpec::replay(out.choices.clone());
                    best_viol = out.violations;
                    progress = true;
                    break;
                }
                if spent >= budget {
                    break;
                }
            }
            if progress {
                break;
            }
        }
    }
    // Phase 2: simplify the schedule itself. Walk over the context switches
    // and try to let the previous task run one decision longer instead; keep
    // the change when the same clause still fails. (The replay policy falls
    // back deterministically when a recorded task is not runnable.)
    if best_sched.kind == "replay" {
        let arc = Arc::new(best_case.clone());
        let mut choices = best_sched.choices.clone();
        let mut i = 1;
        while i < choices.len() && spent < budget {
            if choices[i] != choices[i - 1] {
                let mut cand = choices.clone();
                cand[i] = cand[i - 1];
                let out = exec_case(p, &arc, &SchedSpec::replay(cand), ctx, false);
                spent += 1;
                let switches = |c: &[u16]| c.windows(2).filter(|w| w[0] != w[1]).count();
                if out.harness_error.is_none()
                    && out.violations.iter().any(|v| v.clause == clause)
                    && switches(&out.choices) < switches(&choices)
                {
                    choices = out.choices.clone();
                    best_viol = out.violations;
                    continue; // re-examine the same position
                }
            }
            i += 1;
        }
        best_sched = SchedSpec::replay(choices);
    }
    // Put the matching clause first.
    best_viol.sort_by_key(|v| v.clause != clause);
    (best_case, best_sched, best_viol, spent)
}

#[derive(Serialize, Deserialize)]
pub struct ReplayFile<C> {
    pub property: String,
    pub verif_seed: u64,
    pub run: u64,
    pub run_seed: u64,
    pub clause: String,
    pub detail: String,
    pub minimised: bool,
    pub original_size: usize,
    pub size: usize,
    pub case: C,
    pub sched: SchedSpec,
    pub trace: Value,
}

pub fn write_replay<P: Prop>(
    p: &P,
    verif_seed: u64,
    found: &Found<P::Case>,
    ctx: &WorkerCtx,
    dir: &std::path::Path,
) -> (PathBuf, String, String) {
    let (case, sched, viol, _spent) = minimise(p, found, ctx, if p.isolate() { 2500 } else { 12000 });
    // Final confirmation run with the trace.
    let arc = Arc::new(case.clone());
    let out = exec_case(p, &arc, &sched, ctx, true);
    let clause = viol[0].clause.clone();
    let (sched, detail, trace) =
        match out.violations.iter().find(|v| v.clause == clause) {
            Some(v) => (SchedSpec::replay(out.choices.clone()), v.detail.clone(), out.trace),
            None => (sched, viol[0].detail.clone(), out.trace),
        };
    let rf = ReplayFile {
        property: p.id().to_string(),
        verif_seed,
        run: found.run,
        run_seed: found.run_seed,
        clause: clause.clone(),
        detail: detail.clone(),
        minimised: true,
        original_size: p.size(&found.case),
        size: p.size(&case),
        case,
        sched,
        trace,
    };
    let _ = std::fs::create_dir_all(dir);
    let path = dir.join(format!("{}-{}-{}.json", p.id(), verif_seed, found.run));
    let text = serde_json::to_string_pretty(&rf).unwrap();
    std::fs::write(&path, text).expect("write replay file");
    (path, clause, detail)
}

/// Re-executes a replay file. Returns the violations it produces now.
pub fn replay<P: Prop>(p: &P, path: &std::path::Path) -> Result<(ReplayFile<P::Case>, Vec<Violation>, Value), String> {
    let text = std::fs::read_to_string(path).map_err(|e| format!("{}: {e}", path.display()))?;
    let rf: ReplayFile<P::Case> =
        serde_json::from_str(&text).map_err(|e| format!("{}: {e}", path.display()))?;
    let root = scratch_root();
    let ctx = WorkerCtx { index: 0, dir: root.join("replay") };
    std::fs::create_dir_all(&ctx.dir).map_err(|e| e.to_string())?;
    let out = exec_case(p, &Arc::new(rf.case.clone()), &rf.sched, &ctx, true);
    let _ = std::fs::remove_dir_all(&root);
    if let Some(e) = out.harness_error {
        return Err(e);
    }
    Ok((rf, out.violations, out.trace))
}
