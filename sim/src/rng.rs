//! The only source of randomness in the simulator: a SplitMix64 stream.
//!
//! Everything a run decides (configuration, programs, faults, schedule) is
//! drawn from streams derived from one per-run seed with `fork`.

#[derive(Clone, Debug)]
pub struct Rng {
    s: u64,
}

pub fn mix(a: u64, b: u64) -> u64 {
    let mut z = a ^ b.wrapping_mul(0x9E37_79B9_7F4A_7C15).rotate_left(23);
    z = z.wrapping_add(0x9E37_79B9_7F4A_7C15);
    z = (z ^ (z >> 30)).wrapping_mul(0xBF58_476D_1CE4_E5B9);
    z = (z ^ (z >> 27)).wrapping_mul(0x94D0_49BB_1331_11EB);
    z ^ (z >> 31)
}

impl Rng {
    pub fn new(seed: u64) -> Rng {
        Rng { s: mix(seed, 0x5EED) }
    }

    /// An independent stream identified by `tag`.
    pub fn fork(&self, tag: u64) -> Rng {
        Rng { s: mix(self.s, tag) }
    }

    pub fn next_u64(&mut self) -> u64 {
        self.s = self.s.wrapping_add(0x9E37_79B9_7F4A_7C15);
        let mut z = self.s;
        z = (z ^ (z >> 30)).wrapping_mul(0xBF58_476D_1CE4_E5B9);
        z = (z ^ (z >> 27)).wrapping_mul(0x94D0_49BB_1331_11EB);
        z ^ (z >> 31)
    }

    /// Uniform in `0..n` (`n > 0`).
    pub fn below(&mut self, n: u64) -> u64 {
        debug_assert!(n > 0);
        // Multiply-shift; the bias is irrelevant at these sizes.
        ((self.next_u64() as u128 * n as u128) >> 64) as u64
    }

    pub fn usize_below(&mut self, n: usize) -> usize {
        self.below(n as u64) as usize
    }

    /// Uniform in `lo..=hi`.
    pub fn range(&mut self, lo: i64, hi: i64) -> i64 {
        debug_assert!(lo <= hi);
        lo + self.below((hi - lo) as u64 + 1) as i64
    }

    /// True with probability `num/den`.
    pub fn chance(&mut self, num: u64, den: u64) -> bool {
        self.below(den) < num
    }

    pub fn pick<'a, T>(&mut self, xs: &'a [T]) -> &'a T {
        &xs[self.usize_below(xs.len())]
    }

    /// Index drawn with the given weights.
    pub fn weighted(&mut self, weights: &[u32]) -> usize {
        let total: u64 = weights.iter().map(|&w| w as u64).sum();
        debug_assert!(total > 0);
        let mut x = self.below(total);
        for (i, &w) in weights.iter().enumerate() {
            if x < w as u64 {
                return i;
            }
            x -= w as u64;
        }
        weights.len() - 1
    }
}

/// FNV-1a, used for event-log fingerprints (stable across processes).
#[derive(Clone, Copy, Debug)]
pub struct Fnv(pub u64);

impl Fnv {
    pub fn new() -> Fnv {
        Fnv(0xcbf2_9ce4_8422_2325)
    }
    pub fn byte(&mut self, b: u8) {
        self.0 ^= b as u64;
        self.0 = self.0.wrapping_mul(0x0000_0100_0000_01B3);
    }
    pub fn bytes(&mut self, bs: &[u8]) {
        for &b in bs {
            self.byte(b);
        }
    }
    pub fn u64(&mut self, x: u64) {
        self.bytes(&x.to_le_bytes());
    }
}
