//! A counting global allocator: the memory oracle of C20.
//!
//! When tracking is on, every allocation and deallocation of the process is
//! recorded (address -> size, serial number). A zone's *footprint* is the
//! set of allocations made while it was being created that are still live
//! afterwards; footprint addresses are *watched*: the allocator notices
//! when they are freed, and a second free of a watched address that has not
//! been handed out again is reported and **not** forwarded to the system
//! allocator (so the process survives to report it).

use std::alloc::{GlobalAlloc, Layout, System};
use std::cell::Cell;
use std::collections::HashMap;
use std::sync::atomic::{AtomicBool, Ordering};

pub struct Counting;

#[derive(Clone, Debug)]
pub struct Watch {
    pub zone: u32,
    pub addr: usize,
    pub serial: u64,
    pub size: usize,
    pub freed: bool,
}

#[derive(Clone, Copy, Debug)]
pub enum MemEvent {
    /// A watched address was freed a second time without having been
    /// allocated again in between.
    DoubleFree { zone: u32, addr: usize },
}

#[derive(Default)]
pub struct State {
    live: HashMap<usize, (usize, u64)>,
    serial: u64,
    /// Per zone: its footprint records.
    zones: HashMap<u32, Vec<Watch>>,
    /// Latest watcher of an address: (zone, index into its records).
    by_addr: HashMap<usize, (u32, usize)>,
    /// Fixed-size: nothing allocated under the bookkeeping lock may ever be
    /// freed outside of it (it would look like a free of an unknown block).
    pub events: [Option<MemEvent>; 8],
    pub allocs: u64,
    pub deallocs: u64,
    recording: Option<Vec<(usize, usize, u64)>>,
}

static TRACK: AtomicBool = AtomicBool::new(false);
/// Fill freed blocks with 0xDD? A per-run knob: poisoned memory exposes
/// stale *borrows* (they read garbage), un-poisoned memory exposes stale
/// *identity* (a freed zone that still compares equal is handed out again).
static POISON: AtomicBool = AtomicBool::new(false);

pub fn set_poison(on: bool) {
    POISON.store(on, Ordering::Relaxed);
}
static LOCK: AtomicBool = AtomicBool::new(false);
static mut STATE: Option<State> = None;

thread_local! {
    static BUSY: Cell<bool> = const { Cell::new(false) };
    /// Is *this thread* recording a footprint? (Other threads may allocate
    /// concurrently while they start up or exit; that is not part of the
    /// zone being created here.)
    static RECORDING: Cell<bool> = const { Cell::new(false) };
    /// Allocations made by this thread.
    static MY_ALLOCS: Cell<u64> = const { Cell::new(0) };
}

fn with_state<R>(f: impl FnOnce(&mut State) -> R) -> Option<R> {
    // Bookkeeping allocates; those allocations go straight to the system
    // allocator.
    let busy = BUSY.try_with(|b| b.replace(true)).unwrap_or(true);
    if busy {
        return None;
    }
    while LOCK
        .compare_exchange_weak(false, true, Ordering::Acquire, Ordering::Relaxed)
        .is_err()
    {
        std::hint::spin_loop();
    }
    // SAFETY: STATE is only touched under LOCK.
    #[allow(static_mut_refs)]
    let r = unsafe {
        if STATE.is_none() {
            STATE = Some(State::default());
        }
        f(STATE.as_mut().unwrap())
    };
    LOCK.store(false, Ordering::Release);
    let _ = BUSY.try_with(|b| b.set(false));
    Some(r)
}

unsafe impl GlobalAlloc for Counting {
    unsafe fn alloc(&self, layout: Layout) -> *mut u8 {
        let p = System.alloc(layout);
        if !p.is_null() && TRACK.load(Ordering::Relaxed) {
            with_state(|s| {
                s.serial += 1;
                s.allocs += 1;
                let serial = s.serial;
                s.live.insert(p as usize, (layout.size(), serial));
                let _ = MY_ALLOCS.try_with(|c| c.set(c.get() + 1));
                if RECORDING.try_with(|r| r.get()).unwrap_or(false) {
                    if let Some(rec) = s.recording.as_mut() {
                        rec.push((p as usize, layout.size(), serial));
                    }
                }
            });
        }
        p
    }

    unsafe fn dealloc(&self, p: *mut u8, layout: Layout) {
        let mut forward = true;
        if TRACK.load(Ordering::Relaxed) {
            with_state(|s| {
                s.deallocs += 1;
                match s.live.remove(&(p as usize)) {
                    Some((_, serial)) => {
                        if let Some(&(z, i)) = s.by_addr.get(&(p as usize)) {
                            if let Some(w) = s.zones.get_mut(&z).and_then(|v| v.get_mut(i)) {
                                if w.serial == serial {
                                    w.freed = true;
                                }
                            }
                        }
                    }
                    None => {
                        if let Some(&(z, i)) = s.by_addr.get(&(p as usize)) {
                            let freed = s
                                .zones
                                .get(&z)
                                .and_then(|v| v.get(i))
                                .map_or(false, |w| w.freed);
                            if freed {
                                if let Some(e) = s.events.iter_mut().find(|e| e.is_none()) {
                                    *e = Some(MemEvent::DoubleFree {
                                        zone: z,
                                        addr: p as usize,
                                    });
                                }
                                forward = false;
                            }
                        }
                        // Otherwise: allocated before tracking began.
                    }
                }
            });
        }
        if forward {
            // Poison freed memory (tracked processes only): a stale borrow
            // into a freed zone then reads 0xDD bytes instead of plausible
            // old data, and the answer oracles notice.
            if POISON.load(Ordering::Relaxed) && layout.size() <= (1 << 16) {
                std::ptr::write_bytes(p, 0xDD, layout.size());
            }
            System.dealloc(p, layout);
        }
    }
}

pub fn enable() {
    TRACK.store(true, Ordering::SeqCst);
}

/// Starts recording the allocations made from now on.
pub fn record_start() {
    with_state(|s| s.recording = Some(Vec::new()));
    RECORDING.with(|r| r.set(true));
}

/// Stops recording; watches the recorded allocations that are still live on
/// behalf of `zone` and returns how many there are.
pub fn record_finish(zone: u32) -> usize {
    RECORDING.with(|r| r.set(false));
    with_state(|s| {
        let rec = s.recording.take().unwrap_or_default();
        let mut out = 0usize;
        for (addr, size, serial) in rec {
            if s.live.get(&addr).map(|e| e.1) == Some(serial) {
                let recs = s.zones.entry(zone).or_default();
                recs.push(Watch { zone, addr, serial, size, freed: false });
                let idx = recs.len() - 1;
                s.by_addr.insert(addr, (zone, idx));
                out += 1;
            }
        }
        out
    })
    .unwrap_or_default()
}

/// How many of the allocations recorded so far are still live (recording
/// continues).
pub fn record_peek_live() -> usize {
    with_state(|s| {
        let Some(rec) = s.recording.as_ref() else { return 0 };
        rec.iter()
            .filter(|(addr, _, serial)| s.live.get(addr).map(|e| e.1) == Some(*serial))
            .count()
    })
    .unwrap_or(0)
}

/// Stops recording without watching anything; returns how many recorded
/// allocations are still live.
pub fn record_discard() -> usize {
    RECORDING.with(|r| r.set(false));
    with_state(|s| {
        let rec = s.recording.take().unwrap_or_default();
        rec.iter()
            .filter(|(addr, _, serial)| s.live.get(addr).map(|e| e.1) == Some(*serial))
            .count()
    })
    .unwrap_or(0)
}

/// (live, freed) among the watched addresses of `zone`.
pub fn zone_status(zone: u32) -> (usize, usize) {
    with_state(|s| {
        let mut live = 0;
        let mut freed = 0;
        for w in s.zones.get(&zone).map(|v| v.as_slice()).unwrap_or(&[]) {
            if w.freed {
                freed += 1;
            } else {
                live += 1;
            }
        }
        (live, freed)
    })
    .unwrap_or((0, 0))
}

pub fn take_events() -> [Option<MemEvent>; 8] {
    with_state(|s| std::mem::replace(&mut s.events, [None; 8])).unwrap_or([None; 8])
}

pub fn counters() -> (u64, u64) {
    with_state(|s| (s.allocs, s.deallocs)).unwrap_or((0, 0))
}

/// Allocations made by the calling thread so far.
pub fn my_allocs() -> u64 {
    MY_ALLOCS.with(|c| c.get())
}

/// Forgets all watches (start of a run).
pub fn reset_watches() {
    with_state(|s| {
        s.zones.clear();
        s.by_addr.clear();
        s.events = [None; 8];
        s.recording = None;
    });
}

/// Is there a live allocation starting exactly at `addr`? Returns its
/// (size, serial number).
pub fn live_at(addr: usize) -> Option<(usize, u64)> {
    with_state(|s| s.live.get(&addr).copied()).flatten()
}

pub fn is_enabled() -> bool {
    TRACK.load(Ordering::Relaxed)
}

/// Watches the live allocation starting at `addr` on behalf of `zone`.
/// Returns its serial number, or `None` if nothing is allocated there.
pub fn watch_addr(zone: u32, addr: usize) -> Option<u64> {
    with_state(|s| {
        let (size, serial) = s.live.get(&addr).copied()?;
        let recs = s.zones.entry(zone).or_default();
        recs.push(Watch { zone, addr, serial, size, freed: false });
        let idx = recs.len() - 1;
        s.by_addr.insert(addr, (zone, idx));
        Some(serial)
    })
    .flatten()
}
