//! The simulator core. A worker process runs one execution at a time. Every
//! simulated thread is a real OS thread (so thread identity and thread-locals
//! are real), but exactly one of them runs at any moment: the one holding the
//! *baton*. At every scheduling point (the `cfg(jiff_verif)` sites inside
//! jiff, and the harness's own points) the holder asks the scheduler who runs
//! next and, if it is somebody else, hands the baton over and parks. This
//! module owns
//!
//! * the scheduler: every interleaving decision is drawn from the run's PRNG
//!   (random / PCT-style policies) or from an explicit recorded choice list
//!   (replay), and every decision is recorded;
//! * the simulated monotonic clock (the only clock jiff's caches read);
//! * the event log (global sequence numbers) and its fingerprint;
//! * the hooks installed into jiff's `cfg(jiff_verif)` seams;
//! * deadlock detection and the step bound (cooperative abort).
//!
//! The state is process-global (workers are separate processes).

use std::sync::atomic::{AtomicBool, Ordering};
use std::sync::{Condvar, Mutex, MutexGuard};
use std::time::{Duration, Instant};

use crate::rng::{Fnv, Rng};

pub const MAX_TASKS: usize = 64;

/// How the next runnable task is chosen.
#[derive(Clone, Debug, PartialEq)]
pub enum Policy {
    /// Uniform among runnable tasks; with probability `stick/16` the current
    /// task simply continues (longer atomic stretches).
    Random { stick: u8 },
    /// Priority based with `depth - 1` priority change points spread over an
    /// estimated schedule length (PCT, Burckhardt et al.).
    Pct { depth: u8, est_len: u32 },
    /// Follow `RunRt::replay` (explicit choice list); if a recorded choice is
    /// not runnable fall back deterministically.
    Replay,
}

#[derive(Clone, Debug, PartialEq, Eq)]
pub enum Abort {
    Deadlock,
    StepBound,
    /// No task can run although not all are finished: a harness bug.
    Stuck,
}

#[derive(Clone, Debug, Default)]
struct TaskState {
    done: bool,
    /// Parked in `join` until that task is done.
    waiting_on: Option<usize>,
}

/// Payload used to unwind simulated threads when a run is aborted.
pub struct AbortRun;

#[derive(Clone, Debug)]
pub enum What {
    /// A `cfg(jiff_verif)` site inside jiff.
    Site(&'static str),
    /// A harness-level event (operation boundaries, disk mutations, clock).
    Note(&'static str),
}

#[derive(Clone, Debug)]
pub struct Ev {
    pub seq: u32,
    pub task: u8,
    /// Global id of the operation the task was executing (u32::MAX: none).
    pub op: u32,
    pub what: What,
}

pub struct RunRt {
    pub active: bool,
    tasks: Vec<TaskState>,
    pub policy: Policy,
    pub srng: Rng,
    pub replay: Vec<u16>,
    pub replay_pos: usize,
    pub choices: Vec<u16>,
    pub cur_task: usize,
    pub steps: u64,
    pub max_steps: u64,
    pub switches: u64,
    pub blocked: u64,
    pub blocked_calls: u64,
    pub abort: Option<Abort>,
    pub abort_site: Option<&'static str>,
    pct_prio: [u64; MAX_TASKS],
    pct_seen: u64,
    pct_low: u64,
    pct_points: Vec<u64>,
    // clock
    pub clock_ns: u64,
    /// Simulated time covered by steps of at most one hour (the "100 years
    /// later" jumps would otherwise dominate the total).
    pub clock_small_ns: u64,
    pub mono: bool,
    /// Do waiting writers keep new readers out in this execution?
    pub writer_pref: bool,
    // events
    pub seq: u32,
    pub events: Vec<Ev>,
    pub fp: Fnv,
    pub cur_op: [u32; MAX_TASKS],
    pub site_hits: Vec<(&'static str, u64)>,
    pub last_panic: Option<String>,
    /// I/O fault injection: each call of jiff's `fault` seam at an enabled
    /// site fails with probability `io_rate/16`, decided by `io_rng`.
    pub io_rate: u8,
    pub io_sites: Vec<String>,
    pub io_rng: Rng,
    /// (event seq, site, op) of every injected I/O error.
    pub io_fired: Vec<(u32, &'static str, u32)>,
    pub io_asked: u64,
}

impl RunRt {
    fn new() -> RunRt {
        RunRt {
            active: false,
            tasks: vec![],
            policy: Policy::Random { stick: 0 },
            srng: Rng::new(0),
            replay: vec![],
            replay_pos: 0,
            choices: vec![],
            cur_task: 0,
            steps: 0,
            max_steps: 50_000,
            switches: 0,
            blocked: 0,
            blocked_calls: 0,
            abort: None,
            abort_site: None,
            pct_prio: [0; MAX_TASKS],
            pct_seen: 0,
            pct_low: 0,
            pct_points: vec![],
            clock_ns: 0,
            clock_small_ns: 0,
            mono: true,
            writer_pref: false,
            seq: 0,
            events: vec![],
            fp: Fnv::new(),
            cur_op: [u32::MAX; MAX_TASKS],
            site_hits: vec![],
            last_panic: None,
            io_rate: 0,
            io_sites: vec![],
            io_rng: Rng::new(0),
            io_fired: vec![],
            io_asked: 0,
        }
    }

    pub fn reset(&mut self, policy: Policy, sched_seed: u64, replay: Vec<u16>) {
        self.active = true;
        self.tasks = vec![TaskState::default()];
        self.policy = policy;
        self.srng = Rng::new(sched_seed);
        self.replay = replay;
        self.replay_pos = 0;
        self.choices.clear();
        self.cur_task = 0;
        self.steps = 0;
        self.switches = 0;
        self.blocked = 0;
        self.blocked_calls = 0;
        self.abort = None;
        self.abort_site = None;
        self.pct_prio = [0; MAX_TASKS];
        self.pct_seen = 0;
        self.pct_low = 1 << 20;
        self.pct_points.clear();
        if let Policy::Pct { depth, est_len } = self.policy {
            for _ in 1..depth {
                let p = self.srng.below(est_len.max(1) as u64);
                self.pct_points.push(p);
            }
        }
        self.clock_ns = 0;
        self.clock_small_ns = 0;
        self.mono = true;
        self.writer_pref = false;
        self.seq = 0;
        self.events.clear();
        self.fp = Fnv::new();
        self.cur_op = [u32::MAX; MAX_TASKS];
        self.last_panic = None;
        self.io_rate = 0;
        self.io_sites.clear();
        self.io_fired.clear();
        self.io_asked = 0;
    }

    fn hit(&mut self, site: &'static str) {
        for e in self.site_hits.iter_mut() {
            if std::ptr::eq(e.0, site) || e.0 == site {
                e.1 += 1;
                return;
            }
        }
        self.site_hits.push((site, 1));
    }

    fn push_event(&mut self, what: What) -> u32 {
        self.seq += 1;
        let seq = self.seq;
        let task = self.cur_task as u8;
        let name = match what {
            What::Site(s) | What::Note(s) => s,
        };
        self.fp.byte(task);
        self.fp.bytes(name.as_bytes());
        self.fp.byte(0xff);
        let op = self.cur_op[self.cur_task.min(MAX_TASKS - 1)];
        self.events.push(Ev { seq, task, op, what });
        // Any event is progress: lock states may have changed.
        self.blocked = 0;
        seq
    }
}

static RT: Mutex<Option<RunRt>> = Mutex::new(None);
static CV: Condvar = Condvar::new();

fn lock_rt() -> MutexGuard<'static, Option<RunRt>> {
    let mut g = RT.lock().unwrap_or_else(|e| e.into_inner());
    if g.is_none() {
        *g = Some(RunRt::new());
    }
    g
}

pub fn with_rt<R>(f: impl FnOnce(&mut RunRt) -> R) -> R {
    let mut g = lock_rt();
    f(g.as_mut().unwrap())
}

/// Real instant all simulated instants are offsets from. Only differences
/// between simulated instants are ever observed by jiff.
fn base_instant() -> Instant {
    static BASE: std::sync::OnceLock<Instant> = std::sync::OnceLock::new();
    *BASE.get_or_init(Instant::now)
}

// ---------------------------------------------------------------------------
// Scheduler
// ---------------------------------------------------------------------------

impl RunRt {
    fn runnable(&self) -> Vec<usize> {
        (0..self.tasks.len())
            .filter(|&i| {
                let t = &self.tasks[i];
                !t.done && t.waiting_on.map_or(true, |w| self.tasks[w].done)
            })
            .collect()
    }

    /// Decides who runs next. `cur`: the task making the decision (still
    /// runnable or not); `is_yielding`: it found its lock busy.
    fn choose(&mut self, cur: Option<usize>, is_yielding: bool) -> Option<usize> {
        let ids = self.runnable();
        if ids.is_empty() {
            return None;
        }
        self.steps += 1;
        if self.abort.is_none() {
            if self.steps > self.max_steps {
                self.abort = Some(Abort::StepBound);
            } else {
                // Deadlock: every runnable task has found its lock busy
                // since the last event of any kind.
                let all_blocked = ids
                    .iter()
                    .all(|&id| id < MAX_TASKS && self.blocked & (1 << id) != 0);
                if all_blocked {
                    self.abort = Some(Abort::Deadlock);
                }
            }
        }
        let cur_runnable = cur.map_or(false, |c| ids.contains(&c));
        let choice = match self.policy {
            Policy::Random { stick } => {
                if is_yielding && ids.len() > 1 && cur_runnable {
                    // A spinning task gives way to anybody else.
                    let others: Vec<usize> =
                        ids.iter().copied().filter(|&i| Some(i) != cur).collect();
                    *self.srng.pick(&others)
                } else if cur_runnable
                    && !is_yielding
                    && stick > 0
                    && self.srng.below(16) < stick as u64
                {
                    cur.unwrap()
                } else {
                    *self.srng.pick(&ids)
                }
            }
            Policy::Pct { .. } => {
                for &i in &ids {
                    let i = i.min(MAX_TASKS - 1);
                    if self.pct_seen & (1 << i) == 0 {
                        self.pct_seen |= 1 << i;
                        self.pct_prio[i] = (1 << 32) + (self.srng.next_u64() >> 32);
                    }
                }
                if let Some(c) = cur {
                    let c = c.min(MAX_TASKS - 1);
                    let at_point = self.pct_points.contains(&self.steps);
                    if at_point || is_yielding {
                        self.pct_low -= 1;
                        self.pct_prio[c] = self.pct_low;
                    }
                }
                *ids.iter()
                    .max_by_key(|&&i| self.pct_prio[i.min(MAX_TASKS - 1)])
                    .unwrap()
            }
            Policy::Replay => {
                let want = self.replay.get(self.replay_pos).copied();
                self.replay_pos += 1;
                match want {
                    Some(w) if ids.contains(&(w as usize)) => w as usize,
                    _ => {
                        if is_yielding && ids.len() > 1 && cur_runnable {
                            *ids.iter().find(|&&i| Some(i) != cur).unwrap()
                        } else if cur_runnable {
                            cur.unwrap()
                        } else {
                            ids[0]
                        }
                    }
                }
            }
        };
        if Some(choice) != cur {
            self.switches += 1;
        }
        self.choices.push(choice as u16);
        Some(choice)
    }
}

/// A scheduling point of the running task `me`.
fn switch(is_yielding: bool) {
    let mut g = lock_rt();
    let rt = g.as_mut().unwrap();
    let me = rt.cur_task;
    match rt.choose(Some(me), is_yielding) {
        Some(next) if next == me => {}
        Some(next) => {
            rt.cur_task = next;
            CV.notify_all();
            while g.as_ref().unwrap().cur_task != me {
                g = CV.wait(g).unwrap_or_else(|e| e.into_inner());
            }
        }
        None => {}
    }
}

pub struct JoinHandle {
    id: usize,
    os: std::thread::JoinHandle<()>,
}

/// Spawns a simulated thread: a real OS thread that runs only while it
/// holds the baton.
pub fn spawn<F: FnOnce() + Send + 'static>(f: F) -> JoinHandle {
    let id = with_rt(|rt| {
        rt.tasks.push(TaskState::default());
        rt.tasks.len() - 1
    });
    let os = std::thread::Builder::new()
        .stack_size(1 << 20)
        .spawn(move || {
            {
                let mut g = lock_rt();
                while g.as_ref().unwrap().cur_task != id {
                    g = CV.wait(g).unwrap_or_else(|e| e.into_inner());
                }
            }
            let _ = std::panic::catch_unwind(std::panic::AssertUnwindSafe(f));
            // Finished: pass the baton on for good.
            let mut g = lock_rt();
            let rt = g.as_mut().unwrap();
            rt.tasks[id].done = true;
            rt.blocked = 0;
            match rt.choose(None, false) {
                Some(next) => rt.cur_task = next,
                None => {
                    rt.abort.get_or_insert(Abort::Stuck);
                    rt.cur_task = 0;
                }
            }
            CV.notify_all();
        })
        .expect("spawn simulated thread");
    JoinHandle { id, os }
}

/// Parks the running task until the given simulated thread has finished.
pub fn join(h: JoinHandle) {
    {
        let mut g = lock_rt();
        let rt = g.as_mut().unwrap();
        let me = rt.cur_task;
        if !rt.tasks[h.id].done {
            rt.tasks[me].waiting_on = Some(h.id);
            match rt.choose(None, false) {
                Some(next) => rt.cur_task = next,
                None => {
                    rt.abort.get_or_insert(Abort::Stuck);
                }
            }
            CV.notify_all();
            loop {
                let rt = g.as_mut().unwrap();
                if rt.cur_task == me && rt.tasks[h.id].done {
                    break;
                }
                if rt.cur_task == me && rt.abort == Some(Abort::Stuck) {
                    break;
                }
                g = CV.wait(g).unwrap_or_else(|e| e.into_inner());
            }
            g.as_mut().unwrap().tasks[me].waiting_on = None;
        }
    }
    let _ = h.os.join();
}

// ---------------------------------------------------------------------------
// Running one execution
// ---------------------------------------------------------------------------

pub struct ExecOutcome {
    pub choices: Vec<u16>,
    pub steps: u64,
    pub switches: u64,
    pub abort: Option<Abort>,
    /// A panic that escaped the execution closure (harness error).
    pub escaped_panic: Option<String>,
}

/// Runs `body` once as task 0 (on the calling thread) of a fresh execution
/// under `policy`.
pub fn exec_one<F>(
    policy: Policy,
    sched_seed: u64,
    replay: Vec<u16>,
    max_steps: u64,
    body: F,
) -> ExecOutcome
where
    F: Fn() + Send + Sync + 'static,
{
    init_once();
    with_rt(|rt| {
        rt.reset(policy, sched_seed, replay);
        rt.max_steps = max_steps;
    });
    let res = std::panic::catch_unwind(std::panic::AssertUnwindSafe(|| {
        body();
    }));
    let escaped_panic = match res {
        Ok(()) => None,
        Err(p) => Some(panic_message(&*p)),
    };
    with_rt(|rt| {
        rt.active = false;
        ExecOutcome {
            choices: std::mem::take(&mut rt.choices),
            steps: rt.steps,
            switches: rt.switches,
            abort: rt.abort.clone(),
            escaped_panic,
        }
    })
}

pub fn panic_message(p: &(dyn std::any::Any + Send)) -> String {
    if p.is::<AbortRun>() {
        "AbortRun".to_string()
    } else if let Some(s) = p.downcast_ref::<&'static str>() {
        s.to_string()
    } else if let Some(s) = p.downcast_ref::<String>() {
        s.clone()
    } else {
        "<non-string panic payload>".to_string()
    }
}

static VERBOSE_PANICS: AtomicBool = AtomicBool::new(false);

pub fn set_verbose_panics(v: bool) {
    VERBOSE_PANICS.store(v, Ordering::Relaxed);
}

/// Installs only the quiet panic hook (for executors that do not use the
/// shuttle engine). Idempotent.
pub fn install_panic_hook() {
    static INIT: std::sync::Once = std::sync::Once::new();
    INIT.call_once(set_quiet_hook);
}

fn set_quiet_hook() {
    std::panic::set_hook(Box::new(|info| {
        if info.payload().is::<AbortRun>() {
            return;
        }
        let msg = format!(
            "{} at {}",
            panic_message(info.payload()),
            info.location()
                .map(|l| format!("{}:{}", l.file(), l.line()))
                .unwrap_or_default()
        );
        if VERBOSE_PANICS.load(Ordering::Relaxed) {
            eprintln!("[jiffsim] panic: {msg}");
        }
        // `try_lock`: never block or panic inside the hook (the panicking
        // thread may hold the lock).
        if let Ok(mut g) = RT.try_lock() {
            if let Some(rt) = g.as_mut() {
                rt.last_panic = Some(msg);
            }
        }
    }));
}

/// Installs jiff's hooks and our panic hook. Idempotent.
pub fn init_once() {
    static INIT: std::sync::Once = std::sync::Once::new();
    INIT.call_once(|| {
        base_instant();
        jiff::verif::install(jiff::verif::Hooks {
            point: hook_point,
            blocked: hook_blocked,
            monotonic: hook_monotonic,
            writer_preference: hook_writer_preference,
            fault: hook_fault,
        });
        set_quiet_hook();
    });
}

// ---------------------------------------------------------------------------
// Hooks (called from inside jiff) and harness-level scheduling points
// ---------------------------------------------------------------------------

fn check_abort() {
    let abort = with_rt(|rt| rt.abort.is_some());
    if abort {
        std::panic::panic_any(AbortRun);
    }
}

fn hook_point(site: &'static str) {
    if !with_rt(|rt| rt.active) {
        return;
    }
    check_abort();
    with_rt(|rt| {
        rt.hit(site);
        rt.push_event(What::Site(site));
    });
    switch(false);
    check_abort();
}

fn hook_blocked(site: &'static str) {
    if !with_rt(|rt| rt.active) {
        std::thread::yield_now();
        return;
    }
    check_abort();
    with_rt(|rt| {
        if rt.cur_task < MAX_TASKS {
            rt.blocked |= 1 << rt.cur_task;
        }
        rt.blocked_calls += 1;
        rt.abort_site = Some(site);
    });
    switch(true);
    check_abort();
}

fn hook_fault(site: &'static str) -> bool {
    with_rt(|rt| {
        if !rt.active || rt.io_rate == 0 {
            return false;
        }
        if !rt.io_sites.iter().any(|s| s == site) {
            return false;
        }
        rt.io_asked += 1;
        if rt.io_rng.below(16) < rt.io_rate as u64 {
            let seq = rt.push_event(What::Note("io.fault"));
            let op = rt.cur_op[rt.cur_task.min(MAX_TASKS - 1)];
            rt.io_fired.push((seq, site, op));
            true
        } else {
            false
        }
    })
}

/// Arms I/O fault injection for the current execution.
pub fn arm_io_faults(seed: u64, rate: u8, sites: &[String]) {
    with_rt(|rt| {
        rt.io_rng = Rng::new(seed);
        rt.io_rate = rate;
        rt.io_sites = sites.to_vec();
    });
}

fn hook_writer_preference() -> bool {
    with_rt(|rt| rt.active && rt.writer_pref)
}

fn hook_monotonic() -> Option<Option<Instant>> {
    with_rt(|rt| {
        if !rt.active {
            return None;
        }
        if !rt.mono {
            return Some(None);
        }
        Some(Some(base_instant() + Duration::from_nanos(rt.clock_ns)))
    })
}

/// A harness-level scheduling point (between operations, between the steps
/// of a multi-step disk mutation, ...). Recorded in the event log.
pub fn yield_point(name: &'static str) {
    check_abort();
    with_rt(|rt| {
        rt.push_event(What::Note(name));
    });
    switch(false);
    check_abort();
}

/// Records a harness-level event without yielding. Returns its sequence
/// number.
pub fn note(name: &'static str) -> u32 {
    with_rt(|rt| rt.push_event(What::Note(name)))
}

pub fn now_seq() -> u32 {
    with_rt(|rt| rt.seq)
}

pub fn clock() -> u64 {
    with_rt(|rt| rt.clock_ns)
}

pub fn advance_clock(d: u64) {
    with_rt(|rt| {
        rt.clock_ns = rt.clock_ns.saturating_add(d);
        if d <= 3_600_000_000_000 {
            rt.clock_small_ns += d;
        }
        rt.push_event(What::Note("clock.advance"));
    });
}

pub fn set_cur_op(op: u32) {
    with_rt(|rt| {
        let t = rt.cur_task.min(MAX_TASKS - 1);
        rt.cur_op[t] = op;
    });
}

pub fn cur_task() -> usize {
    with_rt(|rt| rt.cur_task)
}
