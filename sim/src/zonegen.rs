//! What the simulator writes to its disk: synthetic TZif v2 files whose
//! content encodes one integer `k` (so every answer is attributable to one
//! write), the real TZif files from jiff's test data, and Android `tzdata`
//! container images. Also an independent reader for that container, used by
//! the oracle.

/// Real TZif files (jiff's own test data), embedded at build time.
pub static REAL_TZIF: &[(&str, &[u8])] = &[
    ("america-new-york", include_bytes!("/repo/src/tz/testdata/america-new-york.tzif")),
    ("america-sao-paulo", include_bytes!("/repo/src/tz/testdata/america-sao-paulo.tzif")),
    ("america-sitka", include_bytes!("/repo/src/tz/testdata/america-sitka.tzif")),
    ("america-st-johns", include_bytes!("/repo/src/tz/testdata/america-st-johns.tzif")),
    ("antarctica-troll", include_bytes!("/repo/src/tz/testdata/antarctica-troll.tzif")),
    ("australia-sydney-rhel8", include_bytes!("/repo/src/tz/testdata/australia-sydney-rhel8.tzif")),
    ("australia-tasmania", include_bytes!("/repo/src/tz/testdata/australia-tasmania.tzif")),
    ("europe-dublin", include_bytes!("/repo/src/tz/testdata/europe-dublin.tzif")),
    ("pacific-honolulu", include_bytes!("/repo/src/tz/testdata/pacific-honolulu.tzif")),
    ("right-america-new-york", include_bytes!("/repo/src/tz/testdata/right-america-new-york.tzif")),
    ("utc", include_bytes!("/repo/src/tz/testdata/utc.tzif")),
];

pub const K_MAX: u32 = 86_399;

fn be32(out: &mut Vec<u8>, x: u32) {
    out.extend_from_slice(&x.to_be_bytes());
}

fn header(out: &mut Vec<u8>, timecnt: u32, typecnt: u32, charcnt: u32) {
    out.extend_from_slice(b"TZif2");
    out.extend_from_slice(&[0u8; 15]);
    be32(out, 0); // isutcnt
    be32(out, 0); // isstdcnt
    be32(out, 0); // leapcnt
    be32(out, timecnt);
    be32(out, typecnt);
    be32(out, charcnt);
}

pub fn abbrev(k: u32) -> String {
    format!("V{k:05}")
}

/// A synthetic TZif v2 file: a single local time type with UT offset `k`
/// seconds east and abbreviation `V<k>`; if `with_transition`, an earlier
/// type with offset `k - 1` and abbreviation `W<k>` up to 2000-01-01T00:00Z.
/// Fixed size for a given `with_transition`.
pub fn synth_tzif(k: u32, with_transition: bool) -> Vec<u8> {
    assert!((1..=K_MAX).contains(&k));
    let ab = abbrev(k);
    let mut out = Vec::with_capacity(160);
    // v1 block: one type, no transitions.
    header(&mut out, 0, 1, ab.len() as u32 + 1);
    be32(&mut out, k);
    out.push(0);
    out.push(0);
    out.extend_from_slice(ab.as_bytes());
    out.push(0);
    // v2 block.
    if with_transition {
        let wb = format!("W{k:05}");
        let charcnt = (ab.len() + 1 + wb.len() + 1) as u32;
        header(&mut out, 1, 2, charcnt);
        // transition time: 2000-01-01T00:00:00Z
        out.extend_from_slice(&946_684_800i64.to_be_bytes());
        out.push(1); // after the transition: type 1
                     // type 0 (before)
        be32(&mut out, k - 1);
        out.push(0);
        out.push((ab.len() + 1) as u8);
        // type 1 (after)
        be32(&mut out, k);
        out.push(0);
        out.push(0);
        out.extend_from_slice(ab.as_bytes());
        out.push(0);
        out.extend_from_slice(wb.as_bytes());
        out.push(0);
    } else {
        header(&mut out, 0, 1, ab.len() as u32 + 1);
        be32(&mut out, k);
        out.push(0);
        out.push(0);
        out.extend_from_slice(ab.as_bytes());
        out.push(0);
    }
    // Footer: POSIX TZ string; POSIX offsets are west-positive.
    let (h, m, s) = (k / 3600, (k / 60) % 60, k % 60);
    out.push(b'\n');
    out.extend_from_slice(format!("<{ab}>-{h:02}:{m:02}:{s:02}").as_bytes());
    out.push(b'\n');
    out
}

/// A synthetic TZif v2 file with a daylight saving rule in its footer: two
/// local time types (standard, daylight), three explicit transitions
/// (1960-01-01 to standard, 1980-01-01 to daylight, 2000-01-01T00:00Z back to
/// standard; before the first: daylight time), and the POSIX rule `rule`,
/// which must describe the same two types and have 1 January in standard
/// time. Instants before 2000 are answered from the table (three different
/// entries), later ones from the rule.
pub fn synth_tzif_footer(rule: &str, std_off: i32, std_ab: &str, dst_off: i32, dst_ab: &str) -> Vec<u8> {
    let mut out = Vec::with_capacity(240);
    // v1 block: one type, no transitions.
    header(&mut out, 0, 1, std_ab.len() as u32 + 1);
    out.extend_from_slice(&std_off.to_be_bytes());
    out.push(0);
    out.push(0);
    out.extend_from_slice(std_ab.as_bytes());
    out.push(0);
    // v2 block: type 0 = daylight (the type before the first transition),
    // type 1 = standard.
    let charcnt = (dst_ab.len() + 1 + std_ab.len() + 1) as u32;
    header(&mut out, 3, 2, charcnt);
    for t in [-315_619_200i64, 315_532_800, 946_684_800] {
        out.extend_from_slice(&t.to_be_bytes());
    }
    out.extend_from_slice(&[1, 0, 1]);
    out.extend_from_slice(&dst_off.to_be_bytes());
    out.push(1);
    out.push(0);
    out.extend_from_slice(&std_off.to_be_bytes());
    out.push(0);
    out.push((dst_ab.len() + 1) as u8);
    out.extend_from_slice(dst_ab.as_bytes());
    out.push(0);
    out.extend_from_slice(std_ab.as_bytes());
    out.push(0);
    out.push(b'\n');
    out.extend_from_slice(rule.as_bytes());
    out.push(b'\n');
    out
}

/// Builds an Android `tzdata` image from `(name, tzif bytes)` entries, in
/// the order given.
pub fn android_image(version: &str, entries: &[(String, Vec<u8>)]) -> Vec<u8> {
    assert_eq!(version.len(), 5);
    let index_off = 24u32;
    let data_off = index_off + 52 * entries.len() as u32;
    let mut out = Vec::new();
    out.extend_from_slice(b"tzdata");
    out.extend_from_slice(version.as_bytes());
    out.push(0);
    be32(&mut out, index_off);
    be32(&mut out, data_off);
    let total: usize = entries.iter().map(|e| e.1.len()).sum();
    be32(&mut out, data_off + total as u32); // zonetab offset (unused)
    let mut start = 0u32;
    for (name, blob) in entries {
        assert!(name.len() <= 40);
        let mut nm = [0u8; 40];
        nm[..name.len()].copy_from_slice(name.as_bytes());
        out.extend_from_slice(&nm);
        be32(&mut out, start);
        be32(&mut out, blob.len() as u32);
        be32(&mut out, 0);
        start += blob.len() as u32;
    }
    for (_, blob) in entries {
        out.extend_from_slice(blob);
    }
    out
}

/// Offset of the blob of entry `i` inside an image built by `android_image`.
pub fn android_blob_offset(entries: &[(String, Vec<u8>)], i: usize) -> u64 {
    let data_off = 24 + 52 * entries.len();
    let before: usize = entries[..i].iter().map(|e| e.1.len()).sum();
    (data_off + before) as u64
}

/// Independent reader for the container (the oracle's view of an image).
/// `None`: not a usable container at all.
pub fn android_parse(img: &[u8]) -> Option<Vec<(String, Option<Vec<u8>>)>> {
    if img.len() < 24 || &img[..6] != b"tzdata" || img[11] != 0 {
        return None;
    }
    if std::str::from_utf8(&img[6..11]).is_err() {
        return None;
    }
    let rd = |o: usize| -> u32 {
        u32::from_be_bytes([img[o], img[o + 1], img[o + 2], img[o + 3]])
    };
    let index_off = rd(12) as usize;
    let data_off = rd(16) as usize;
    if index_off > data_off || (data_off - index_off) % 52 != 0 {
        return None;
    }
    if data_off > img.len() {
        // The index itself cannot be read in full.
        return None;
    }
    let mut out = vec![];
    let mut o = index_off;
    while o < data_off {
        let mut nm = &img[o..o + 40];
        while nm.last() == Some(&0) {
            nm = &nm[..nm.len() - 1];
        }
        let name = match std::str::from_utf8(nm) {
            Ok(s) => s.to_string(),
            // An index with a non-UTF-8 name cannot be listed; a lookup of
            // another name still works. Keep the entry, unreadable.
            Err(_) => String::from("\u{fffd}"),
        };
        let start = rd(o + 40) as usize;
        let len = rd(o + 44) as usize;
        let blob = data_off
            .checked_add(start)
            .and_then(|b| b.checked_add(len).map(|e| (b, e)))
            .and_then(|(b, e)| img.get(b..e))
            .map(|s| s.to_vec());
        out.push((name, blob));
        o += 52;
    }
    Some(out)
}

/// Where (absolute offset, length) the index of `img` says the blob of
/// `name` is. `Err(())`: not a usable container; `Ok(None)`: no such entry.
pub fn android_locate(img: &[u8], name: &str) -> Result<Option<(usize, usize)>, ()> {
    if img.len() < 24 || &img[..6] != b"tzdata" || img[11] != 0 {
        return Err(());
    }
    if std::str::from_utf8(&img[6..11]).is_err() {
        return Err(());
    }
    let rd = |o: usize| -> u32 {
        u32::from_be_bytes([img[o], img[o + 1], img[o + 2], img[o + 3]])
    };
    let index_off = rd(12) as usize;
    let data_off = rd(16) as usize;
    if index_off > data_off || (data_off - index_off) % 52 != 0 || data_off > img.len() {
        return Err(());
    }
    let mut o = index_off;
    while o < data_off {
        let mut nm = &img[o..o + 40];
        while nm.last() == Some(&0) {
            nm = &nm[..nm.len() - 1];
        }
        if nm.eq_ignore_ascii_case(name.as_bytes()) {
            let start = rd(o + 40) as usize;
            let len = rd(o + 44) as usize;
            return Ok(Some((data_off.saturating_add(start), len)));
        }
        o += 52;
    }
    Ok(None)
}

/// The name list jiff would produce when it reads the header from `hdr` and
/// then the index block from `idx` (two states of the same file).
/// `None`: that refresh fails (bad header, short read, non-UTF-8 name, no
/// names).
pub fn android_names(hdr: &[u8], idx: &[u8]) -> Option<Vec<String>> {
    if hdr.len() < 24 || &hdr[..6] != b"tzdata" || hdr[11] != 0 {
        return None;
    }
    std::str::from_utf8(&hdr[6..11]).ok()?;
    let rd = |o: usize| -> u32 {
        u32::from_be_bytes([hdr[o], hdr[o + 1], hdr[o + 2], hdr[o + 3]])
    };
    let index_off = rd(12) as usize;
    let data_off = rd(16) as usize;
    if index_off > data_off || (data_off - index_off) % 52 != 0 {
        return None;
    }
    let block = idx.get(index_off..data_off)?;
    let mut names = vec![];
    for e in block.chunks_exact(52) {
        let mut nm = &e[..40];
        while nm.last() == Some(&0) {
            nm = &nm[..nm.len() - 1];
        }
        names.push(std::str::from_utf8(nm).ok()?.to_string());
    }
    if names.is_empty() {
        return None;
    }
    Some(names)
}

/// Start-up self check of the generators against jiff's parser. An error
/// here is a harness error (exit 2), never a violation.
pub fn self_check() -> Result<(), String> {
    use jiff::{tz::TimeZone, Timestamp};
    for &k in &[1u32, 59, 60, 3599, 3600, 1000, 8999, 43_200, K_MAX] {
        for &tr in &[false, true] {
            let bytes = synth_tzif(k, tr);
            let tz = TimeZone::tzif("X/Y", &bytes)
                .map_err(|e| format!("synthetic k={k} tr={tr}: {e}"))?;
            let ts = Timestamp::from_second(1_700_000_000).unwrap();
            let info = tz.to_offset_info(ts);
            if info.offset().seconds() != k as i32 {
                return Err(format!("synthetic k={k}: wrong offset"));
            }
            if info.abbreviation() != abbrev(k) {
                return Err(format!("synthetic k={k}: wrong abbreviation"));
            }
            if tr {
                let ts = Timestamp::from_second(900_000_000).unwrap();
                if tz.to_offset(ts).seconds() != k as i32 - 1 {
                    return Err(format!("synthetic k={k}: wrong old offset"));
                }
            }
            // No proper prefix parses: every torn state is invalid.
            for cut in 0..bytes.len() {
                if TimeZone::tzif("X/Y", &bytes[..cut]).is_ok() {
                    return Err(format!(
                        "synthetic k={k} tr={tr}: prefix {cut} parses"
                    ));
                }
            }
        }
    }
    if synth_tzif(1, false).len() != synth_tzif(K_MAX, false).len()
        || synth_tzif(1, true).len() != synth_tzif(K_MAX, true).len()
    {
        return Err("synthetic files are not fixed-size".into());
    }
    for (name, bytes) in REAL_TZIF {
        TimeZone::tzif(name, bytes)
            .map_err(|e| format!("real file {name}: {e}"))?;
    }
    let entries = vec![
        ("A/b".to_string(), synth_tzif(7, false)),
        ("Zed".to_string(), synth_tzif(8, true)),
    ];
    let img = android_image("2099z", &entries);
    let parsed = android_parse(&img).ok_or("android image unreadable")?;
    if parsed.len() != 2
        || parsed[1].0 != "Zed"
        || parsed[1].1.as_deref() != Some(&entries[1].1[..])
    {
        return Err("android image does not round-trip".into());
    }
    let off = android_blob_offset(&entries, 1) as usize;
    if &img[off..off + entries[1].1.len()] != &entries[1].1[..] {
        return Err("android blob offset wrong".into());
    }
    Ok(())
}
