//! jiffsim: deterministic simulation with fault injection for jiff's time
//! zone database caches (C19) and `TimeZone` handles (C20).
//!
//! Exit codes: 0 property held on everything explored (known findings are
//! printed as `KNOWN-FINDING:` lines); 1 violation (a line
//! `VIOLATION property=<id> replay=<path>` is printed); 2 harness error.

mod alloc;
mod c19;
mod c20;
mod disk;
mod driver;
mod rng;
mod sim;
mod zonegen;

use std::collections::BTreeMap;
use std::path::{Path, PathBuf};
use std::sync::Arc;

use serde_json::{json, Value};

use driver::{BatchResult, Stats, Tier};

#[global_allocator]
static GLOBAL: alloc::Counting = alloc::Counting;

struct Args {
    cmd: String,
    rest: Vec<String>,
    opts: BTreeMap<String, String>,
}

fn parse_args() -> Args {
    let mut it = std::env::args().skip(1);
    let cmd = it.next().unwrap_or_else(|| "help".into());
    let mut rest = vec![];
    let mut opts = BTreeMap::new();
    let v: Vec<String> = it.collect();
    let mut i = 0;
    while i < v.len() {
        if let Some(k) = v[i].strip_prefix("--") {
            let val = v.get(i + 1).cloned().unwrap_or_default();
            opts.insert(k.to_string(), val);
            i += 2;
        } else {
            rest.push(v[i].clone());
            i += 1;
        }
    }
    Args { cmd, rest, opts }
}

fn harness_error(msg: &str) -> ! {
    eprintln!("HARNESS-ERROR: {msg}");
    std::process::exit(2);
}

struct KnownFindings {
    /// (property, clause, signature substring, description)
    findings: Vec<(String, String, String, String)>,
}

fn load_known(path: &Path) -> KnownFindings {
    let mut findings = vec![];
    if let Ok(text) = std::fs::read_to_string(path) {
        for line in text.lines() {
            let line = line.trim();
            let Some(rest) = line.strip_prefix("finding:") else { continue };
            let mut prop = String::new();
            let mut clause = String::new();
            let mut sig = String::new();
            let mut desc = vec![];
            for tok in rest.split_whitespace() {
                if let Some(v) = tok.strip_prefix("property=") {
                    prop = v.into();
                } else if let Some(v) = tok.strip_prefix("clause=") {
                    clause = v.into();
                } else if let Some(v) = tok.strip_prefix("signature=") {
                    sig = v.into();
                } else {
                    desc.push(tok);
                }
            }
            findings.push((prop, clause, sig, desc.join(" ")));
        }
    }
    KnownFindings { findings }
}

fn evidence<C>(
    prop_id: &str,
    tier: Tier,
    seed: u64,
    res: &BatchResult<C>,
    extra: Value,
    violations: u64,
    rule: &str,
    assumptions: &[&str],
    real_stub: Value,
) -> Value {
    let st: &Stats = &res.stats;
    let counters: BTreeMap<String, u64> =
        st.counters.iter().map(|(k, v)| (k.to_string(), *v)).collect();
    let mut faults = BTreeMap::new();
    let mut sites = BTreeMap::new();
    let mut other = BTreeMap::new();
    for (k, v) in counters.iter() {
        if let Some(f) = k.strip_prefix("fault.") {
            faults.insert(f.to_string(), *v);
        } else if let Some(s) = k.strip_prefix("site.") {
            sites.insert(s.to_string(), *v);
        } else {
            other.insert(k.clone(), *v);
        }
    }
    let per_hour = if res.wall_s > 0.0 { st.runs as f64 * 3600.0 / res.wall_s } else { 0.0 };
    json!({
        "property_id": prop_id,
        "tier": match tier { Tier::Quick => "quick", Tier::Thorough => "thorough" },
        "seed": seed,
        "level": "exploration",
        "coverage": {
            "evaluations": st.runs,
            "distinct_nontrivial": st.nontrivial_fingerprints.len(),
            "distinct_event_logs": st.fingerprints.len(),
            "rule": rule,
            "samples": st.samples,
            "exhaustive": false,
            "simulated_runs_per_hour": per_hour.round(),
            "seeds_per_hour": per_hour.round(),
            "simulated_seconds_covered": (st.sim_ns / 1_000_000_000) as u64,
            "scheduler_steps": st.steps,
            "context_switches": st.switches,
            "workers": res.workers,
            "faults_injected": faults,
            "probe_site_hits": sites,
            "counters": other,
            "real_vs_stub": real_stub,
            "extra": extra,
        },
        "assumptions": assumptions,
        "wall_s": res.wall_s,
        "violations": violations,
    })
}

fn write_evidence(path: &Path, v: &Value) {
    if let Some(parent) = path.parent() {
        let _ = std::fs::create_dir_all(parent);
    }
    if let Err(e) = std::fs::write(path, serde_json::to_string_pretty(v).unwrap()) {
        harness_error(&format!("cannot write evidence {}: {e}", path.display()));
    }
}

fn seed_from(args: &Args) -> u64 {
    if let Some(s) = args.opts.get("seed") {
        if let Ok(v) = s.parse::<u64>() {
            return v;
        }
    }
    match std::env::var("VERIF_SEED") {
        Ok(s) if !s.trim().is_empty() => match s.trim().parse::<u64>() {
            Ok(v) => v,
            // Any string is accepted as a seed: hash it.
            Err(_) => {
                let mut h = rng::Fnv::new();
                h.bytes(s.as_bytes());
                h.0
            }
        },
        _ => driver::DEFAULT_SEED,
    }
}

fn opt_u64(args: &Args, key: &str, default: u64) -> u64 {
    args.opts.get(key).and_then(|s| s.parse().ok()).unwrap_or(default)
}

fn tier_from(args: &Args) -> Tier {
    let t = args
        .opts
        .get("tier")
        .cloned()
        .or_else(|| std::env::var("VERIF_TIER").ok())
        .unwrap_or_else(|| "quick".into());
    if t == "thorough" {
        Tier::Thorough
    } else {
        Tier::Quick
    }
}

const C19_RULE: &str = "One evaluation = one simulated run: a case (back-end, zone files, 1-4 caller \
threads and 0-2 disk-mutator threads with explicit programs, clock availability, settle phase) and a \
schedule, both derived from hash(VERIF_SEED, run index); the oracle of DESIGN.md 3.4 is checked over \
the recorded history. A run is non-trivial if at least one disk-mutation step landed inside an in-flight \
get/available/open/reset, or database operations of two threads overlapped. Distinct = distinct \
fingerprint of the full event log (task, site/event name in global order) plus every operation's \
interval, clock and result.";

const C19_ASSUMPTIONS: &[&str] = &[
    "A1: a content change is visible as an mtime change (the simulator gives every write a unique mtime); same-mtime content swaps are outside the simulated fault model, except that a deterministic probe per on-disk back-end demands a re-read of a same-mtime replacement after reset()",
    "A2: on-disk zone names are unique under ASCII case folding",
    "A3: database paths are absolute",
    "A4: jiff's in-memory TZif parser (TimeZone::tzif) is the reference for which zone given bytes denote",
    "A5: std::fs, std::sync::RwLock and the kernel's tmpfs are correct; scheduling points exist only at the cfg(jiff_verif) sites, so code between two sites is atomic in the simulation",
    "A7: the simulated disk holds only regular files, directories and symlinks",
    "A8: files are never renamed to a different ASCII case of the same name",
    "EIO/EINTR/short reads below std::fs and allocation failure are not injected (no seam; std retries; OOM aborts)",
    "concatenated back-end: in-place rewrites are layout-preserving (same names, same blob sizes) or truncations; layout changes use atomic rename",
];

fn c19_real_stub() -> Value {
    json!({
        "real": [
            "jiff TimeZoneDatabase (zoneinfo, concatenated, bundled back-ends), both caches, Expiration, util::fs",
            "std::fs on kernel tmpfs", "std::sync::RwLock (real lock; only who-acquires-next is simulated)", "alloc::sync::Arc",
            "TZif / POSIX TZ parsing of every file version"
        ],
        "stub_or_simulated": [
            "monotonic clock (cfg(jiff_verif) override in now.rs)",
            "thread scheduler: every simulated thread is a real OS thread, exactly one runs at a time, the baton is handed over at every cfg(jiff_verif) site by the harness's seeded scheduler",
            "file mtimes (set explicitly after every write)",
            "zone file contents (synthetic TZif + jiff's test TZif files)"
        ]
    })
}

/// Runs the TTL calibration. `Err(exit code)`: it found that entries never
/// expire (reported as a violation) .
fn c19_calibrate(seed: u64, replay_dir: &Path) -> Result<Value, i32> {
    let root = driver::scratch_root().join("calib");
    let r = c19::calib::calibrate(&root);
    let _ = std::fs::remove_dir_all(&root);
    match r {
        Err(detail) => {
            let _ = std::fs::create_dir_all(replay_dir);
            let path = replay_dir.join(format!("C19-{seed}-calibration.json"));
            let _ = std::fs::write(
                &path,
                serde_json::to_string_pretty(&json!({
                    "property": "C19-calibration", "clause": "freshness", "detail": detail,
                    "replay": "deterministic: re-runs the time-to-live measurement",
                }))
                .unwrap(),
            );
            println!("violated clause: freshness");
            println!("detail: {detail}");
            println!("VIOLATION property=C19 replay={}", path.display());
            Err(1)
        }
        Ok(c) => {
            for m in &c.measured {
                println!(
                    "measured time-to-live ({}): zones re-read after {:.9}s, names refreshed after {:.9}s",
                    m.backend,
                    m.zone_refresh_after_ns as f64 / 1e9,
                    m.names_refresh_after_ns as f64 / 1e9
                );
            }
            for n in &c.notes {
                println!("{n}");
            }
            Ok(json!({
                "measured": c.measured.iter()
                    .map(|m| json!({"backend": m.backend, "zone_refresh_after_ns": m.zone_refresh_after_ns,
                                    "names_refresh_after_ns": m.names_refresh_after_ns, "oracle_ttl_ns": m.ttl_ns,
                                    "reset_rereads_replacement_with_same_mtime": true}))
                    .collect::<Vec<_>>(),
                "notes": c.notes,
            }))
        }
    }
}

fn run_c19(args: &Args) -> i32 {
    if let Err(e) = zonegen::self_check() {
        harness_error(&format!("generator self-check failed: {e}"));
    }
    let tier = tier_from(args);
    let seed = seed_from(args);
    let workers = opt_u64(args, "workers", 16) as usize;
    let (def_mixed, def_ff, def_budget) = match tier {
        Tier::Quick => (150_000, 30_000, 120.0),
        Tier::Thorough => (12_000_000, 1_500_000, 3000.0),
    };
    let runs_mixed = opt_u64(args, "runs", def_mixed);
    let runs_ff = opt_u64(args, "runs-fault-free", def_ff.min(runs_mixed));
    let budget = args.opts.get("budget").and_then(|s| s.parse().ok()).unwrap_or(def_budget);
    let evidence_path = PathBuf::from(
        args.opts.get("evidence").cloned().unwrap_or_else(|| "/verif/evidence/C19.json".into()),
    );
    let replay_dir = PathBuf::from(
        args.opts.get("replays").cloned().unwrap_or_else(|| "/verif/replays".into()),
    );
    let known = load_known(Path::new(
        args.opts.get("known").map(|s| s.as_str()).unwrap_or("/verif/known-findings.txt"),
    ));
    let want_fplog = args.opts.contains_key("fplog");
    println!("C19 tier={tier:?} VERIF_SEED={seed} runs={runs_mixed}+{runs_ff} workers={workers}");

    // Measure the time-to-live the caches really use (the property is stated
    // relative to it); workers inherit the result through the environment.
    let calib_json = match c19_calibrate(seed, &replay_dir) {
        Ok(v) => v,
        Err(code) => {
            // Entries never expire, or survive a reset: nothing else was run.
            let empty: BatchResult<c19::case::Case> = BatchResult {
                stats: Stats::default(),
                found: None,
                harness_error: None,
                wall_s: 0.0,
                workers,
            };
            let extra = json!({"violation": {"clause": "freshness",
                "detail": "the time-to-live / reset measurement found that cached entries do not expire or survive a reset (see the replay file)",
                "replay": replay_dir.join(format!("C19-{seed}-calibration.json"))}});
            let ev = evidence("C19", tier, seed, &empty, extra, 1, C19_RULE, C19_ASSUMPTIONS, c19_real_stub());
            write_evidence(&evidence_path, &ev);
            return code;
        }
    };

    // Batch 1: fault-injecting and mixed configurations.
    let p_mixed = Arc::new(c19::C19 { fault_free: None });
    let wargs = |ff: &str| -> Vec<String> {
        vec!["--prop".into(), "c19".into(), "--ff".into(), ff.into()]
    };
    let mut res = driver::run_batch(
        p_mixed.clone(), &wargs("mixed"), seed, tier, runs_mixed, budget, workers, want_fplog,
    );
    // Batch 2: fault-free configurations only (so that the witness
    // relaxation cannot hide an ordinary bug), with a different seed stream.
    let p_ff = Arc::new(c19::C19 { fault_free: Some(true) });
    let mut found_in: Option<Arc<c19::C19>> = None;
    if res.found.is_some() {
        found_in = Some(p_mixed.clone());
    }
    if res.found.is_none() && res.harness_error.is_none() {
        let r2 = driver::run_batch(
            p_ff.clone(), &wargs("only"), seed ^ 0xFF00FF, tier, runs_ff, budget, workers, false,
        );
        let BatchResult { stats, found, harness_error, wall_s, .. } = r2;
        let mut stats = stats;
        // Samples of batch 1 come first.
        let s1 = std::mem::take(&mut res.stats.samples);
        stats.samples.splice(0..0, s1);
        stats.samples.truncate(3);
        let fplog = res.stats.fplog.take();
        let old = std::mem::take(&mut res.stats);
        let mut merged = Stats::default();
        merged_into(&mut merged, old);
        merged_into(&mut merged, stats);
        merged.fplog = fplog;
        res.stats = merged;
        res.wall_s += wall_s;
        res.harness_error = harness_error;
        if found.is_some() {
            found_in = Some(p_ff.clone());
            // The fault-free batch uses its own seed stream.
            res.found = found;
        }
    }
    if let Some(e) = &res.harness_error {
        harness_error(e);
    }
    if let Some(path) = args.opts.get("fplog") {
        let mut log = res.stats.fplog.take().unwrap_or_default();
        log.sort();
        let text: String = log.iter().map(|(r, f)| format!("{r} {f:016x}\n")).collect();
        let _ = std::fs::write(path, text);
    }
    let mut violations = 0;
    let mut exit = 0;
    let mut extra = json!({});
    if let Some(found) = &res.found {
        let p = found_in.unwrap();
        let seed_used = if p.fault_free == Some(true) { seed ^ 0xFF00FF } else { seed };
        let root = driver::scratch_root();
        let ctx = driver::WorkerCtx { index: 0, dir: root.join("min") };
        let _ = std::fs::create_dir_all(&ctx.dir);
        let (path, clause, detail) = driver::write_replay(&*p, seed_used, found, &ctx, &replay_dir);
        let _ = std::fs::remove_dir_all(&root);
        let known_hit = known.findings.iter().find(|f| {
            f.0 == "C19" && f.1 == clause && (f.2.is_empty() || detail.contains(&f.2))
        });
        match known_hit {
            Some(f) => {
                println!("KNOWN-FINDING: property=C19 clause={} {}", f.1, f.3);
                extra = json!({"known_finding": {"clause": clause, "detail": detail, "replay": path}});
            }
            None => {
                println!("violated clause: {clause}");
                println!("detail: {detail}");
                println!("run index {} (run seed {}), minimised replay written", found.run, found.run_seed);
                println!("VIOLATION property=C19 replay={}", path.display());
                violations = 1;
                exit = 1;
                extra = json!({"violation": {"clause": clause, "detail": detail, "replay": path}});
            }
        }
    }
    if let Value::Object(ref mut m) = extra {
        m.insert("measured_time_to_live".into(), calib_json);
    }
    let ev = evidence(
        "C19", tier, seed, &res, extra, violations, C19_RULE, C19_ASSUMPTIONS, c19_real_stub(),
    );
    write_evidence(&evidence_path, &ev);
    println!(
        "C19: {} runs in {:.1}s ({} distinct event logs, {} distinct non-trivial), violations={}",
        res.stats.runs,
        res.wall_s,
        res.stats.fingerprints.len(),
        res.stats.nontrivial_fingerprints.len(),
        violations
    );
    exit
}

const C20_RULE: &str = "One evaluation = one simulated run: 1-4 simulated threads, each with an explicit \
program of up to 24 (quick) / 40 (thorough) operations over 6 slots holding TimeZone, Zoned or \
AmbiguousZoned values (new/clone/drop/move/eq/query/into_zoned/zoned_add/with_time_zone/extract/\
to_ambiguous/resolve/send/recv/swap_shared/crash), and a schedule that interleaves the threads at \
operation granularity; both derived from hash(VERIF_SEED, run index). After every operation the counting \
allocator is compared with the handle-count model; every query is compared with a reference handle; \
equality laws are checked. A run is non-trivial if some heap-backed zone (POSIX or TZif from bytes) was \
shared by at least two live handles at some point. Distinct = distinct fingerprint of the executed \
(thread, operation) sequence in global order. In addition every batch sweeps all 187,199 fixed offsets once.";

const C20_ASSUMPTIONS: &[&str] = &[
    "A5: Arc's atomics and the system allocator are correct (the Miri tier goes inside the atomics)",
    "A6: x86_64 only; the repr(align(8)) argument for 32-bit targets is not exercised",
    "native tier: scheduling points exist between operations only (jiff's TimeZone code has no internal synchronisation other than Arc's counter); what schedules vary is which thread performs which clone/drop and the last drop",
    "a zone's footprint is the set of allocations made during its constructor that are still live when it returns",
    "allocation failure inside Arc::new is not injected (it aborts the process); TimeZone::copy (unsafe, proc-macro internal) is not exercised",
    "cross-kind equality (e.g. static vs heap TZif of the same zone, POSIX vs TZif) is only required to be symmetric and stable, not to have a particular value",
];

fn c20_real_stub() -> Value {
    json!({
        "real": [
            "jiff TimeZone / mod repr (tagged pointer, manual Arc counts), Zoned, AmbiguousZoned, TZif and POSIX parsing, jiff-static get! zones",
            "alloc::sync::Arc", "the system allocator (wrapped by a counting allocator that forwards every call, except a detected double free)",
            "panic unwinding (crash fault)"
        ],
        "stub_or_simulated": [
            "thread scheduler: real OS threads, one at a time, baton handed over at operation boundaries by the harness's seeded scheduler; free-running threads under Miri's seeded scheduler in the Miri tier",
            "channels / shared slot between threads (harness-owned queues; std::sync::mpsc + Mutex in the Miri tier)"
        ]
    })
}

struct MiriResult {
    race_schedules: u64,
    invocations: u64,
    miri_seeds: u64,
    programs: u64,
    executions_ok: u64,
    wall_s: f64,
    failure: Option<(String, Value)>,
}

/// One invocation of the Miri tier: `programs` generated programs, each
/// executed under `miri_seeds` different Miri scheduler seeds.
fn miri_invoke(seed: u64, first: u64, programs: u64, miri_seeds: u64) -> Result<(u64, String), String> {
    miri_invoke_args(&[seed.to_string(), first.to_string(), programs.to_string()], miri_seeds)
}

/// The directed race rounds (`jiffmiri race`) under `miri_seeds` schedules.
fn miri_invoke_race(miri_seeds: u64, full: bool) -> Result<(u64, String), String> {
    let size = if full { "full" } else { "small" };
    miri_invoke_args(&["race".to_string(), size.to_string()], miri_seeds)
}

fn miri_invoke_args(args: &[String], miri_seeds: u64) -> Result<(u64, String), String> {
    let flags = format!("-Zmiri-many-seeds=0..{miri_seeds} -Zmiri-preemption-rate=0.1");
    let out = std::process::Command::new("cargo")
        .current_dir("/verif/miri-c20")
        .env("MIRIFLAGS", &flags)
        .env_remove("RUSTFLAGS")
        .args(["+nightly", "miri", "run", "--offline", "--"])
        .args(args)
        .output()
        .map_err(|e| format!("cannot run cargo miri: {e}"))?;
    let stdout = String::from_utf8_lossy(&out.stdout).to_string();
    let stderr = String::from_utf8_lossy(&out.stderr).to_string();
    let done = stdout.lines().filter(|l| l.starts_with("MIRI-DONE") && l.ends_with("failures=0")).count() as u64;
    if out.status.success() && done == miri_seeds {
        return Ok((done, String::new()));
    }
    // Distinguish "Miri found something" from "Miri could not run".
    let ub = stderr.contains("Undefined Behavior")
        || stderr.contains("memory leaked")
        || stderr.contains("data race")
        || stdout.contains("MIRI-FAIL")
        || stderr.contains("panicked at");
    let excerpt: String = stderr
        .lines()
        .filter(|l| {
            l.starts_with("error")
                || l.contains("Undefined Behavior")
                || l.contains("leaked")
                || l.contains("MIRI-FAIL")
                || l.contains("panicked at")
                || l.starts_with("assertion ")
        })
        .chain(stdout.lines().filter(|l| l.contains("MIRI-FAIL")))
        .take(12)
        .collect::<Vec<_>>()
        .join("\n");
    if ub {
        Ok((done, if excerpt.is_empty() { "miri reported a failure".into() } else { excerpt }))
    } else {
        Err(format!("cargo miri failed without a finding: {}", stderr.lines().rev().take(5).collect::<Vec<_>>().join(" | ")))
    }
}

fn run_miri_tier(seed: u64, invocations: u64, programs: u64, miri_seeds: u64) -> Result<MiriResult, String> {
    let start = std::time::Instant::now();
    let mut res = MiriResult { race_schedules: 0, invocations: 0, miri_seeds, programs: 0, executions_ok: 0, wall_s: 0.0, failure: None };
    // Directed race rounds first: 24 rounds (3 heap zones x 2-3 threads x 4
    // patterns of concurrent clone/drop/query) per schedule.
    // Quick: the small set (4 rounds) under 12 schedules; thorough: all 24
    // rounds under 128 schedules.
    let full = miri_seeds >= 32;
    let race_seeds = if full { miri_seeds * 2 } else { miri_seeds };
    let (ok, fail) = miri_invoke_race(race_seeds, full)?;
    res.race_schedules = ok;
    if !fail.is_empty() {
        res.failure = Some((
            fail.clone(),
            json!({"property": "C20-miri-race", "clause": "miri", "detail": fail, "miri_seeds": race_seeds, "full": full,
                   "command": format!("cd /verif/miri-c20 && MIRIFLAGS='-Zmiri-many-seeds=0..{race_seeds} -Zmiri-preemption-rate=0.1' cargo +nightly miri run --offline -- race {}", if full { "full" } else { "small" })}),
        ));
        res.wall_s = start.elapsed().as_secs_f64();
        return Ok(res);
    }
    for b in 0..invocations {
        let first = b * programs;
        let (ok, fail) = miri_invoke(seed, first, programs, miri_seeds)?;
        res.invocations += 1;
        res.programs += programs;
        res.executions_ok += ok * programs;
        if !fail.is_empty() {
            res.failure = Some((
                fail.clone(),
                json!({"property": "C20-miri", "clause": "miri", "detail": fail,
                       "verif_seed": seed, "first_program": first, "programs": programs, "miri_seeds": miri_seeds,
                       "command": format!("cd /verif/miri-c20 && MIRIFLAGS='-Zmiri-many-seeds=0..{miri_seeds} -Zmiri-preemption-rate=0.1' cargo +nightly miri run --offline -- {seed} {first} {programs}")}),
            ));
            break;
        }
    }
    res.wall_s = start.elapsed().as_secs_f64();
    Ok(res)
}

fn run_c20(args: &Args) -> i32 {
    // The generator self-check creates zones from known bytes and compares
    // the answers of those fresh handles with the values encoded in the
    // bytes. For C20 a wrong answer there is not a harness problem but the
    // property itself ("every live handle keeps answering queries
    // correctly"), with known-answer inputs.
    let mut selfcheck = zonegen::self_check();
    if std::env::var("JIFFSIM_SKIP_CLAUSES").map_or(false, |s| s.split(',').any(|c| c == "answer_known")) {
        selfcheck = Ok(()); // testing aid, never set by the registered commands
    }
    let tier = tier_from(args);
    let seed = seed_from(args);
    let workers = opt_u64(args, "workers", 16) as usize;
    let (def_runs, def_budget) = match tier {
        Tier::Quick => (250_000, 120.0),
        Tier::Thorough => (6_000_000, 3000.0),
    };
    let runs = opt_u64(args, "runs", def_runs);
    let budget = args.opts.get("budget").and_then(|s| s.parse().ok()).unwrap_or(def_budget);
    let evidence_path = PathBuf::from(
        args.opts.get("evidence").cloned().unwrap_or_else(|| "/verif/evidence/C20.json".into()),
    );
    let replay_dir = PathBuf::from(
        args.opts.get("replays").cloned().unwrap_or_else(|| "/verif/replays".into()),
    );
    let known = load_known(Path::new(
        args.opts.get("known").map(|s| s.as_str()).unwrap_or("/verif/known-findings.txt"),
    ));
    let want_fplog = args.opts.contains_key("fplog");
    println!("C20 tier={tier:?} VERIF_SEED={seed} runs={runs} workers={workers}");
    let mut violations = 0;
    let mut exit = 0;
    let mut extra = json!({});
    if let Err(detail) = selfcheck {
        let _ = std::fs::create_dir_all(&replay_dir);
        let path = replay_dir.join(format!("C20-{seed}-known-answers.json"));
        let _ = std::fs::write(
            &path,
            serde_json::to_string_pretty(&json!({
                "property": "C20-known-answers", "clause": "answer_known", "detail": detail,
            }))
            .unwrap(),
        );
        println!("violated clause: answer_known");
        println!("detail: a handle created from known TZif bytes answers wrongly: {detail}");
        println!("VIOLATION property=C20 replay={}", path.display());
        violations += 1;
        exit = 1;
        extra = json!({"violation": {"clause": "answer_known", "detail": detail, "replay": path}});
    }

    // The deterministic sweep over every fixed offset.
    c20::warm_up();
    alloc::enable();
    let sweep_start = std::time::Instant::now();
    let sweep = c20::fixed_sweep();
    let sweep_s = sweep_start.elapsed().as_secs_f64();
    match &sweep {
        Ok(n) => println!("fixed-offset sweep: {n} offsets ok ({sweep_s:.2}s)"),
        Err(v) => {
            let _ = std::fs::create_dir_all(&replay_dir);
            let path = replay_dir.join(format!("C20-{seed}-fixed-sweep.json"));
            let _ = std::fs::write(
                &path,
                serde_json::to_string_pretty(&json!({
                    "property": "C20-sweep", "clause": v.clause, "detail": v.detail,
                    "replay": "deterministic: `jiffsim c20-sweep` re-runs it"
                }))
                .unwrap(),
            );
            println!("violated clause: {}", v.clause);
            println!("detail: {}", v.detail);
            println!("VIOLATION property=C20 replay={}", path.display());
            violations += 1;
            exit = 1;
            extra = json!({"violation": {"clause": v.clause, "detail": v.detail, "replay": path}});
        }
    }

    if exit == 0 {
        let r = c20::golden::check_digests()
            .map(|_| ())
            .and_then(|_| c20::golden::static_matches_heap());
        if let Err(detail) = r {
            // The pre-checks tag their message with the clause in brackets.
            let clause = detail
                .strip_prefix('[')
                .and_then(|d| d.split(']').next())
                .unwrap_or("static_vs_heap")
                .to_string();
            let _ = std::fs::create_dir_all(&replay_dir);
            let path = replay_dir.join(format!("C20-{seed}-precheck.json"));
            let _ = std::fs::write(
                &path,
                serde_json::to_string_pretty(&json!({
                    "property": "C20-static-vs-heap", "clause": clause, "detail": detail,
                }))
                .unwrap(),
            );
            println!("violated clause: {clause}");
            println!("detail: {detail}");
            println!("VIOLATION property=C20 replay={}", path.display());
            violations += 1;
            exit = 1;
            extra = json!({"violation": {"clause": clause, "detail": detail, "replay": path}});
        }
    }
    let p = Arc::new(c20::C20);
    let wargs: Vec<String> = vec!["--prop".into(), "c20".into()];
    // After a deterministic pre-check failed there is nothing to add.
    let runs = if exit == 0 { runs } else { 64 };
    let mut res = driver::run_batch(p.clone(), &wargs, seed, tier, runs, budget, workers, want_fplog);
    if let Some(e) = &res.harness_error {
        harness_error(e);
    }
    if let Some(path) = args.opts.get("fplog") {
        let mut log = res.stats.fplog.take().unwrap_or_default();
        log.sort();
        let text: String = log.iter().map(|(r, f)| format!("{r} {f:016x}\n")).collect();
        let _ = std::fs::write(path, text);
    }
    if let (Some(found), 0) = (&res.found, exit) {
        let root = driver::scratch_root();
        let ctx = driver::WorkerCtx { index: 0, dir: root.join("min") };
        let _ = std::fs::create_dir_all(&ctx.dir);
        let (path, clause, detail) = driver::write_replay(&*p, seed, found, &ctx, &replay_dir);
        let known_hit = known.findings.iter().find(|f| {
            f.0 == "C20" && f.1 == clause && (f.2.is_empty() || detail.contains(&f.2))
        });
        match known_hit {
            Some(f) => {
                println!("KNOWN-FINDING: property=C20 clause={} {}", f.1, f.3);
                extra = json!({"known_finding": {"clause": clause, "detail": detail, "replay": path}});
            }
            None => {
                println!("violated clause: {clause}");
                println!("detail: {detail}");
                println!("run index {} (run seed {}), minimised replay written", found.run, found.run_seed);
                println!("VIOLATION property=C20 replay={}", path.display());
                violations += 1;
                exit = 1;
                extra = json!({"violation": {"clause": clause, "detail": detail, "replay": path}});
            }
        }
    }
    // Miri tier (thorough only, or `--miri <invocations>`).
    // Miri tier: free-running real threads under Miri's seeded scheduler
    // (the only tier that sees data races and wrong memory orderings).
    // Quick: 1 invocation x 3 programs x 12 scheduler seeds; thorough:
    // 6 x 6 x 64. `--miri 0` switches it off.
    let miri_inv = opt_u64(args, "miri", if tier == Tier::Thorough { 6 } else { 1 });
    let mut miri_json = json!({"ran": false, "reason": "switched off with --miri 0"});
    if miri_inv > 0 && exit == 0 {
        let programs = opt_u64(args, "miri-programs", if tier == Tier::Thorough { 6 } else { 3 });
        let mseeds = opt_u64(args, "miri-seeds", if tier == Tier::Thorough { 64 } else { 12 });
        match run_miri_tier(seed, miri_inv, programs, mseeds) {
            Err(e) => harness_error(&e),
            Ok(m) => {
                println!(
                    "miri tier: race rounds x {} schedules clean; {} invocation(s) x {} programs x {} scheduler seeds = {} clean executions in {:.0}s",
                    m.race_schedules, m.invocations, programs, m.miri_seeds, m.executions_ok, m.wall_s
                );
                miri_json = json!({"ran": true, "race_rounds_per_schedule": if m.miri_seeds >= 32 { 24 } else { 4 }, "race_schedules_clean": m.race_schedules,
                    "invocations": m.invocations, "programs": m.programs,
                    "miri_scheduler_seeds_per_program": m.miri_seeds, "clean_executions": m.executions_ok,
                    "wall_s": m.wall_s,
                    "flags": "-Zmiri-many-seeds -Zmiri-preemption-rate=0.1",
                    "detects": "use-after-free, double free, invalid free, leaks, data races, invalid pointer tags/provenance"});
                if let Some((detail, rf)) = m.failure {
                    let _ = std::fs::create_dir_all(&replay_dir);
                    let path = replay_dir.join(format!(
                        "C20-{seed}-miri-{}.json",
                        rf.get("first_program").map(|v| v.to_string()).unwrap_or_else(|| "race".into())
                    ));
                    let _ = std::fs::write(&path, serde_json::to_string_pretty(&rf).unwrap());
                    println!("violated clause: miri");
                    println!("detail: {detail}");
                    println!("VIOLATION property=C20 replay={}", path.display());
                    violations += 1;
                    exit = 1;
                    extra = json!({"violation": {"clause": "miri", "detail": detail, "replay": path}});
                }
            }
        }
    }
    if let Value::Object(ref mut m) = extra {
        m.insert("miri_tier".into(), miri_json);
        m.insert(
            "fixed_offset_sweep".into(),
            json!({"offsets_checked": sweep.as_ref().ok().copied().unwrap_or(0), "range": [-93599, 93599], "exhaustive": sweep.is_ok(), "wall_s": sweep_s}),
        );
        m.insert(
            "static_twins".into(),
            json!({"what": "each static zone exists as two `get!` expansions in two modules; equality between them must be by value",
                   "at_distinct_addresses": c20::golden::static_twins_distinct()}),
        );
    }
    let ev = evidence(
        "C20", tier, seed, &res, extra, violations, C20_RULE, C20_ASSUMPTIONS, c20_real_stub(),
    );
    write_evidence(&evidence_path, &ev);
    println!(
        "C20: {} runs in {:.1}s ({} distinct op interleavings, {} distinct non-trivial), violations={}",
        res.stats.runs,
        res.wall_s,
        res.stats.fingerprints.len(),
        res.stats.nontrivial_fingerprints.len(),
        violations
    );
    exit
}

fn run_exec_case(args: &Args) -> i32 {
    let (Some(input), Some(output)) = (args.opts.get("in"), args.opts.get("out")) else {
        harness_error("exec-case: --in/--out missing")
    };
    match args.opts.get("prop").map(|s| s.as_str()) {
        Some("c19") => driver::exec_case_child(&c19::C19 { fault_free: None }, Path::new(input), Path::new(output)),
        Some("c20") => driver::exec_case_child(&c20::C20, Path::new(input), Path::new(output)),
        other => harness_error(&format!("exec-case: unknown property {other:?}")),
    }
}

fn run_worker(args: &Args) -> i32 {
    let tier = tier_from(args);
    let seed = seed_from(args);
    let runs = opt_u64(args, "runs", 0);
    let workers = opt_u64(args, "workers", 1);
    let index = opt_u64(args, "index", 0);
    let budget = args.opts.get("budget").and_then(|s| s.parse().ok()).unwrap_or(1e9);
    let want_fplog = args.opts.contains_key("fplog");
    let Some(out) = args.opts.get("out").map(PathBuf::from) else {
        harness_error("worker: --out missing")
    };
    match args.opts.get("prop").map(|s| s.as_str()) {
        Some("c19") => {
            let fault_free = match args.opts.get("ff").map(|s| s.as_str()) {
                Some("only") => Some(true),
                Some("never") => Some(false),
                _ => None,
            };
            let p = c19::C19 { fault_free };
            driver::worker_loop(&p, seed, tier, runs, budget, workers, index, want_fplog, &out)
        }
        Some("c20") => {
            let p = c20::C20;
            driver::worker_loop(&p, seed, tier, runs, budget, workers, index, want_fplog, &out)
        }
        other => harness_error(&format!("worker: unknown property {other:?}")),
    }
}

fn merged_into(dst: &mut Stats, src: Stats) {
    for (k, v) in src.counters {
        *dst.counters.entry(k).or_default() += v;
    }
    dst.fingerprints.extend(src.fingerprints);
    dst.nontrivial_fingerprints.extend(src.nontrivial_fingerprints);
    dst.runs += src.runs;
    dst.steps += src.steps;
    dst.switches += src.switches;
    dst.sim_ns += src.sim_ns;
    for s in src.samples {
        if dst.samples.len() < 3 {
            dst.samples.push(s);
        }
    }
}

fn run_replay(args: &Args) -> i32 {
    let Some(path) = args.rest.first() else { harness_error("usage: jiffsim replay <file>") };
    let text = std::fs::read_to_string(path)
        .unwrap_or_else(|e| harness_error(&format!("{path}: {e}")));
    let v: Value = serde_json::from_str(&text)
        .unwrap_or_else(|e| harness_error(&format!("{path}: {e}")));
    let prop = v["property"].as_str().unwrap_or("").to_string();
    if args.opts.contains_key("verbose") {
        sim::set_verbose_panics(true);
    }
    match prop.as_str() {
        "C19" => {
            if let Err(e) = zonegen::self_check() {
                harness_error(&format!("generator self-check failed: {e}"));
            }
            // The oracle judges the replay with the time-to-live measured on
            // the tree being replayed against.
            if let Err(code) = c19_calibrate(0, &std::env::temp_dir()) {
                return code;
            }
            let p = c19::C19 { fault_free: None };
            match driver::replay(&p, Path::new(path)) {
                Err(e) => harness_error(&e),
                Ok((rf, viol, trace)) => report_replay(&rf.property, &rf.clause, path, &viol, &trace, args),
            }
        }
        "C19-calibration" => match c19_calibrate(0, &std::env::temp_dir()) {
            Ok(_) => {
                println!("replay of {path}: cached entries expire and do not survive a reset on the current tree");
                0
            }
            Err(code) => code,
        },
        "C20-miri-race" => {
            let ms = v["miri_seeds"].as_u64().unwrap_or(16);
            match miri_invoke_race(ms, v["full"].as_bool().unwrap_or(true)) {
                Err(e) => harness_error(&e),
                Ok((_, fail)) if fail.is_empty() => {
                    println!("replay of {path}: Miri reports nothing on the current tree");
                    0
                }
                Ok((_, fail)) => {
                    println!("reproduced: clause=miri {fail}");
                    println!("VIOLATION property=C20 replay={path}");
                    1
                }
            }
        }
        "C20-miri" => {
            let (sd, first, n, ms) = (
                v["verif_seed"].as_u64().unwrap_or(1),
                v["first_program"].as_u64().unwrap_or(0),
                v["programs"].as_u64().unwrap_or(1),
                v["miri_seeds"].as_u64().unwrap_or(8),
            );
            match miri_invoke(sd, first, n, ms) {
                Err(e) => harness_error(&e),
                Ok((_, fail)) if fail.is_empty() => {
                    println!("replay of {path}: Miri reports nothing on the current tree");
                    0
                }
                Ok((_, fail)) => {
                    println!("reproduced: clause=miri {fail}");
                    println!("VIOLATION property=C20 replay={path}");
                    1
                }
            }
        }
        "C20-static-vs-heap" => match c20::golden::check_digests()
            .map(|_| ())
            .and_then(|_| c20::golden::static_matches_heap())
        {
            Ok(()) => {
                println!("replay of {path}: static and heap zones agree");
                0
            }
            Err(d) => {
                println!("reproduced: clause=static_vs_heap {d}");
                println!("VIOLATION property=C20 replay={path}");
                1
            }
        },
        "C20-known-answers" => match zonegen::self_check() {
            Ok(()) => {
                println!("replay of {path}: known-answer check clean");
                0
            }
            Err(d) => {
                println!("reproduced: clause=answer_known {d}");
                println!("VIOLATION property=C20 replay={path}");
                1
            }
        },
        "C20-sweep" => {
            c20::warm_up();
            alloc::enable();
            match c20::fixed_sweep() {
                Ok(n) => {
                    println!("replay of {path}: fixed-offset sweep clean ({n} offsets)");
                    0
                }
                Err(v) => {
                    println!("reproduced: clause={} {}", v.clause, v.detail);
                    println!("VIOLATION property=C20 replay={path}");
                    1
                }
            }
        }
        "C20" => {
            let p = c20::C20;
            match driver::replay(&p, Path::new(path)) {
                Err(e) => harness_error(&e),
                Ok((rf, viol, trace)) => report_replay(&rf.property, &rf.clause, path, &viol, &trace, args),
            }
        }
        other => harness_error(&format!("unknown property {other:?} in replay file")),
    }
}

fn report_replay(
    prop: &str,
    clause: &str,
    path: &str,
    viol: &[driver::Violation],
    trace: &Value,
    args: &Args,
) -> i32 {
    if args.opts.contains_key("trace") {
        println!("{}", serde_json::to_string_pretty(trace).unwrap());
    }
    match viol.iter().find(|v| v.clause == clause).or(viol.first()) {
        Some(v) => {
            println!("reproduced: clause={} {}", v.clause, v.detail);
            println!("VIOLATION property={prop} replay={path}");
            1
        }
        None => {
            println!("replay of {path}: no violation on the current tree (recorded clause was {clause})");
            0
        }
    }
}

fn main() {
    let args = parse_args();
    let code = match args.cmd.as_str() {
        "c19" => {
            let code = run_c19(&args);
            driver::cleanup_scratch();
            code
        }
        "c20" => {
            let code = run_c20(&args);
            driver::cleanup_scratch();
            code
        }
        "c20-golden" => {
            println!("{}", serde_json::to_string_pretty(&c20::golden::dump()).unwrap());
            0
        }
        "worker" => run_worker(&args),
        "exec-case" => run_exec_case(&args),
        "replay" => run_replay(&args),
        "selfcheck" => match zonegen::self_check() {
            Ok(()) => {
                println!("selfcheck ok");
                0
            }
            Err(e) => harness_error(&e),
        },
        _ => {
            eprintln!(
                "usage: jiffsim c19|c20 [--tier quick|thorough] [--seed N] [--runs N] [--workers N] \
                 [--evidence FILE] [--replays DIR] [--known FILE] [--fplog FILE]\n       \
                 jiffsim replay FILE [--trace 1]\n       jiffsim selfcheck"
            );
            2
        }
    };
    std::process::exit(code);
}
