//! Measures the time-to-live the database caches actually use.
//!
//! C19 is stated relative to "a cached entry's time-to-live": it does not say
//! how long that is, and the constant is private to jiff. So that a harmless
//! change of the constant is not reported as staleness, the oracle and the
//! workload generator use the *measured* value: the smallest advance of the
//! simulated clock after which a replaced zone file is re-read (zones), and
//! after which a newly created file is found (names), per on-disk back-end.
//! The larger of the two is what the oracle allows answers to lag by.
//!
//! Deterministic and single-threaded; runs once in the parent process, which
//! hands the result to its workers through the environment. An entry that
//! does not expire within ten years is a violation in its own right.

use std::path::{Path, PathBuf};
use std::sync::atomic::{AtomicU64, Ordering};

use jiff::tz::TimeZoneDatabase;

use crate::disk::Backend;
use crate::sim::{self, Policy};
use crate::zonegen;

const DEFAULT_TTL_NS: u64 = 300 * 1_000_000_000;
const TEN_YEARS_NS: u64 = 10 * 365 * 86_400 * 1_000_000_000;

static TTL_ZI: AtomicU64 = AtomicU64::new(0);
static TTL_CC: AtomicU64 = AtomicU64::new(0);

fn env_name(b: Backend) -> &'static str {
    match b {
        Backend::Concatenated => "JIFFSIM_TTL_CC_NS",
        _ => "JIFFSIM_TTL_ZI_NS",
    }
}

fn cell(b: Backend) -> &'static AtomicU64 {
    match b {
        Backend::Concatenated => &TTL_CC,
        _ => &TTL_ZI,
    }
}

/// How long (in simulated nanoseconds) an answer of this back-end may lag
/// the disk. From the environment (set by the parent after calibrating),
/// else jiff's documented five minutes.
pub fn ttl_ns(b: Backend) -> u64 {
    let c = cell(b);
    let v = c.load(Ordering::Relaxed);
    if v != 0 {
        return v;
    }
    let v = std::env::var(env_name(b))
        .ok()
        .and_then(|s| s.parse::<u64>().ok())
        .filter(|&v| v > 0)
        .unwrap_or(DEFAULT_TTL_NS);
    c.store(v, Ordering::Relaxed);
    v
}

#[derive(Clone, Debug)]
pub struct Measured {
    pub backend: &'static str,
    /// Smallest clock advance after which a replaced file is re-read.
    pub zone_refresh_after_ns: u64,
    /// Smallest clock advance after which a new file is found.
    pub names_refresh_after_ns: u64,
    pub ttl_ns: u64,
}

fn set_mtime(path: &Path, secs: u64) {
    let t = std::time::SystemTime::UNIX_EPOCH + std::time::Duration::from_secs(secs);
    if let Ok(f) = std::fs::OpenOptions::new().write(true).open(path) {
        let _ = f.set_modified(t);
    }
}

struct Probe {
    root: PathBuf,
    backend: Backend,
    n: u32,
}

impl Probe {
    /// Fresh directory / image with zone `Cal/A` = content `k`, and, if
    /// `with_b`, also `Cal/B`.
    fn write(&self, dir: &Path, k: u32, with_b: bool, mtime: u64) -> Result<PathBuf, String> {
        let e = |e: std::io::Error| e.to_string();
        match self.backend {
            Backend::Concatenated => {
                std::fs::create_dir_all(dir).map_err(e)?;
                let mut entries = vec![("Cal/A".to_string(), zonegen::synth_tzif(k, false))];
                if with_b {
                    entries.push(("Cal/B".to_string(), zonegen::synth_tzif(k + 1, false)));
                }
                let img = zonegen::android_image("2099a", &entries);
                let p = dir.join("tzdata");
                // Replace by rename, as an update would.
                let tmp = dir.join("tzdata.tmp");
                std::fs::write(&tmp, img).map_err(e)?;
                set_mtime(&tmp, mtime);
                std::fs::rename(&tmp, &p).map_err(e)?;
                Ok(p)
            }
            _ => {
                std::fs::create_dir_all(dir.join("Cal")).map_err(e)?;
                let a = dir.join("Cal/A");
                std::fs::write(&a, zonegen::synth_tzif(k, false)).map_err(e)?;
                set_mtime(&a, mtime);
                if with_b {
                    let b = dir.join("Cal/B");
                    std::fs::write(&b, zonegen::synth_tzif(k + 1, false)).map_err(e)?;
                    set_mtime(&b, mtime);
                }
                Ok(dir.to_path_buf())
            }
        }
    }

    fn open(&self, path: &Path) -> Result<TimeZoneDatabase, String> {
        match self.backend {
            Backend::Concatenated => TimeZoneDatabase::from_concatenated_path(path),
            _ => TimeZoneDatabase::from_dir(path),
        }
        .map_err(|e| e.to_string())
    }

    fn offset_of(db: &TimeZoneDatabase, name: &str) -> Option<i32> {
        let tz = db.get(name).ok()?;
        Some(tz.to_offset(jiff::Timestamp::UNIX_EPOCH).seconds())
    }

    /// Does a lookup `d` nanoseconds after the entry was cached see a
    /// replacement of the file?
    fn zone_refreshed_after(&mut self, d: u64) -> Result<bool, String> {
        self.n += 1;
        let dir = self.root.join(format!("z{}", self.n));
        let _ = std::fs::remove_dir_all(&dir);
        let path = self.write(&dir, 5, false, 1_000_000)?;
        let db = self.open(&path)?;
        if Self::offset_of(&db, "Cal/A") != Some(5) {
            return Err("calibration: first lookup of Cal/A failed".into());
        }
        self.write(&dir, 9, false, 2_000_000)?;
        sim::advance_clock(d);
        let got = Self::offset_of(&db, "Cal/A");
        drop(db);
        let _ = std::fs::remove_dir_all(&dir);
        match got {
            Some(9) => Ok(true),
            Some(5) => Ok(false),
            other => Err(format!("calibration: lookup after replacement returned {other:?}")),
        }
    }

    /// After `reset()`, does a lookup see a replacement that kept the file's
    /// last-modified time (`cp -p`, `rsync -t`, a rewrite within the file
    /// system's timestamp granularity)? The property promises a re-read of a
    /// changed file after a reset; revalidation by mtime alone cannot tell.
    /// (After a mere time-to-live expiry the pinned tree cannot tell either:
    /// that is assumption A1 and is not probed.)
    fn reset_sees_same_mtime_replacement(&mut self) -> Result<bool, String> {
        self.n += 1;
        let dir = self.root.join(format!("r{}", self.n));
        let _ = std::fs::remove_dir_all(&dir);
        let path = self.write(&dir, 5, false, 1_000_000)?;
        let db = self.open(&path)?;
        if Self::offset_of(&db, "Cal/A") != Some(5) {
            return Err("calibration: first lookup of Cal/A failed".into());
        }
        self.write(&dir, 9, false, 1_000_000)?;
        db.reset();
        let got = Self::offset_of(&db, "cal/a");
        drop(db);
        let _ = std::fs::remove_dir_all(&dir);
        match got {
            Some(9) => Ok(true),
            Some(5) => Ok(false),
            other => Err(format!("calibration: lookup after reset returned {other:?}")),
        }
    }

    /// Does a lookup `d` nanoseconds after the name index was built find a
    /// zone created since?
    fn name_found_after(&mut self, d: u64) -> Result<bool, String> {
        self.n += 1;
        let dir = self.root.join(format!("n{}", self.n));
        let _ = std::fs::remove_dir_all(&dir);
        let path = self.write(&dir, 5, false, 1_000_000)?;
        let db = self.open(&path)?;
        // Build (and so date) the index, and cache Cal/A.
        let _ = db.available().count();
        if Self::offset_of(&db, "Cal/A") != Some(5) {
            return Err("calibration: first lookup of Cal/A failed".into());
        }
        self.write(&dir, 5, true, 1_000_000)?;
        sim::advance_clock(d);
        let got = Self::offset_of(&db, "Cal/B");
        drop(db);
        let _ = std::fs::remove_dir_all(&dir);
        Ok(got == Some(6))
    }
}

/// Smallest `d` in `1..=TEN_YEARS_NS` with `f(d)`, by bisection (`f` is
/// monotone for a cache that expires entries).
fn smallest(mut f: impl FnMut(u64) -> Result<bool, String>) -> Result<Option<u64>, String> {
    if !f(TEN_YEARS_NS)? {
        return Ok(None);
    }
    let (mut lo, mut hi) = (0u64, TEN_YEARS_NS); // f(lo) false (d = 0 is never asked), f(hi) true
    while hi - lo > 1 {
        let mid = lo + (hi - lo) / 2;
        if f(mid)? {
            hi = mid;
        } else {
            lo = mid;
        }
    }
    Ok(Some(hi))
}

pub enum Outcome {
    Measured(Measured),
    /// Entries do not expire: a violation in its own right.
    NeverExpires(String),
    /// `reset()` does not make the next lookup re-read a changed file: a
    /// violation in its own right.
    StaleAfterReset(String),
    /// The probes themselves misbehaved (a lookup of a file that is on disk
    /// failed, jiff panicked or deadlocked, ...). That is for the simulation
    /// proper to find, minimise and report; it runs with jiff's documented
    /// five minutes.
    Inconclusive(String),
}

/// Measures one back-end.
pub fn measure(backend: Backend, root: &Path) -> Outcome {
    sim::init_once();
    sim::with_rt(|rt| {
        rt.reset(Policy::Random { stick: 0 }, 0, vec![]);
        rt.max_steps = u64::MAX;
    });
    let name = match backend {
        Backend::Concatenated => "concatenated",
        _ => "zoneinfo",
    };
    let r = std::panic::catch_unwind(std::panic::AssertUnwindSafe(|| {
        let mut p = Probe { root: root.to_path_buf(), backend, n: 0 };
        let z = smallest(|d| p.zone_refreshed_after(d))?;
        let n = match z {
            Some(_) => smallest(|d| p.name_found_after(d))?,
            None => Some(1),
        };
        let fresh = p.reset_sees_same_mtime_replacement()?;
        Ok::<_, String>((z, n, fresh))
    }));
    sim::with_rt(|rt| {
        rt.active = false;
        rt.abort = None;
    });
    let _ = std::fs::remove_dir_all(root);
    let (z, n, fresh_after_reset) = match r {
        Ok(Ok(v)) => v,
        Ok(Err(e)) => return Outcome::Inconclusive(format!("{name}: {e}")),
        Err(_) => {
            return Outcome::Inconclusive(format!("{name}: jiff panicked or deadlocked during the measurement"))
        }
    };
    if !fresh_after_reset {
        return Outcome::StaleAfterReset(format!(
            "{name}: after reset(), a lookup still returns the zone cached before the file was replaced (replacement kept the file's last-modified time)"
        ));
    }
    let Some(z) = z else {
        return Outcome::NeverExpires(format!(
            "{name}: a replaced zone file is still not re-read ten years (simulated) after it was cached"
        ));
    };
    let Some(n) = n else {
        return Outcome::NeverExpires(format!(
            "{name}: a zone file created after the name index was built is still not found ten years (simulated) later"
        ));
    };
    // An answer may lag while the advance is *smaller* than the threshold.
    let ttl = z.max(n) - 1;
    Outcome::Measured(Measured { backend: name, zone_refresh_after_ns: z, names_refresh_after_ns: n, ttl_ns: ttl.max(1) })
}

pub struct Calibration {
    pub measured: Vec<Measured>,
    pub notes: Vec<String>,
}

/// Calibrates both on-disk back-ends and publishes the result to this
/// process and (through the environment) to its children. `Err(detail)`:
/// entries never expire.
pub fn calibrate(root: &Path) -> Result<Calibration, String> {
    let mut out = Calibration { measured: vec![], notes: vec![] };
    for b in [Backend::ZoneInfo, Backend::Concatenated] {
        match measure(b, &root.join(env_name(b))) {
            Outcome::Measured(m) => {
                cell(b).store(m.ttl_ns, Ordering::Relaxed);
                std::env::set_var(env_name(b), m.ttl_ns.to_string());
                out.measured.push(m);
            }
            Outcome::NeverExpires(detail) | Outcome::StaleAfterReset(detail) => return Err(detail),
            Outcome::Inconclusive(why) => {
                cell(b).store(DEFAULT_TTL_NS, Ordering::Relaxed);
                std::env::set_var(env_name(b), DEFAULT_TTL_NS.to_string());
                out.notes.push(format!(
                    "time-to-live measurement inconclusive ({why}); using the documented 300 s"
                ));
            }
        }
    }
    Ok(out)
}
