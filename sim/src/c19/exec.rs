//! Executes one C19 case inside the simulator and records the history.

use std::path::PathBuf;
use std::sync::Arc;

use jiff::tz::{TimeZone, TimeZoneDatabase};

use crate::c19::case::*;
use crate::disk::{Backend, Content, Disk, View};
use crate::sim::{self, AbortRun};
use crate::zonegen;

#[derive(Clone, Debug)]
pub enum OpKind {
    Open,
    Get { q: String, name: Option<usize> },
    Available,
    Reset,
    CloneDb,
    Advance,
    Fault { kind: &'static str, name: Option<usize> },
}

#[derive(Clone, Debug)]
pub enum Res {
    Pending,
    Unit,
    Zone(TimeZone),
    Err(String),
    Names(Vec<String>),
    OpenOk,
    OpenErr(String),
    Panic(String),
}

#[derive(Clone, Debug)]
pub struct OpRec {
    pub id: u32,
    pub thread: u8,
    pub kind: OpKind,
    /// Cache id the op acted on (for `Open`: the id it created).
    pub cache: u32,
    pub inv: u32,
    pub ret: Option<u32>,
    pub clk_inv: u64,
    pub clk_ret: u64,
    pub res: Res,
    /// For a returned heap-backed zone: (address, allocation serial) of the
    /// reference-counted block its handle points into, as seen when the
    /// lookup returned.
    pub zone_block: Option<(usize, u64)>,
}

pub struct RunState {
    pub case: Arc<Case>,
    pub disk: Disk,
    pub ops: Vec<OpRec>,
    pub next_cache: u32,
    /// (event seq, fault kind, name) for every atomic disk mutation step.
    pub fault_steps: Vec<(u32, &'static str, Option<usize>)>,
    pub harness_error: Option<String>,
    /// Is the allocation-level liveness oracle for returned zones armed?
    pub track_blocks: bool,
}

// Only the simulated thread holding the baton runs, so this is never
// contended.
static RUN: std::sync::Mutex<Option<RunState>> = std::sync::Mutex::new(None);

pub fn with_run<R>(f: impl FnOnce(&mut RunState) -> R) -> R {
    let mut g = RUN.lock().unwrap_or_else(|e| e.into_inner());
    f(g.as_mut().expect("no run state"))
}

pub fn take_run() -> Option<RunState> {
    RUN.lock().unwrap_or_else(|e| e.into_inner()).take()
}

struct Handle {
    db: TimeZoneDatabase,
    cache: u32,
}

fn begin_op(thread: u8, kind: OpKind, cache: u32) -> u32 {
    let id = with_run(|r| r.ops.len() as u32);
    sim::set_cur_op(id);
    let inv = sim::note("op.inv");
    let clk = sim::clock();
    with_run(|r| {
        r.ops.push(OpRec {
            id,
            thread,
            kind,
            cache,
            inv,
            ret: None,
            clk_inv: clk,
            clk_ret: clk,
            res: Res::Pending,
            zone_block: None,
        })
    });
    id
}

/// The reference-counted block a heap TZif handle points into: the handle
/// is one word, tag 4 in the low three bits, and the payload pointer is 16
/// bytes (two counters) into the block. Verified at start-up by
/// `zone_block_self_check`; `None` for every other kind of handle.
pub fn zone_block_of(tz: &TimeZone) -> Option<usize> {
    if std::mem::size_of::<TimeZone>() != std::mem::size_of::<usize>() {
        return None;
    }
    let bits: usize = unsafe { std::mem::transmute_copy(tz) };
    if bits & 7 != 4 {
        return None;
    }
    Some((bits & !7usize).wrapping_sub(16))
}

/// Does the layout assumption of `zone_block_of` hold for this build?
pub fn zone_block_self_check() -> bool {
    if !crate::alloc::is_enabled() {
        return false;
    }
    let bytes = crate::zonegen::synth_tzif(77, true);
    let Ok(tz) = TimeZone::tzif("Self/Check", &bytes) else { return false };
    let Some(addr) = zone_block_of(&tz) else { return false };
    let live = crate::alloc::live_at(addr).is_some();
    drop(tz);
    live && crate::alloc::live_at(addr).is_none()
}

fn end_op(id: u32, res: Res) {
    let ret = sim::note("op.ret");
    let clk = sim::clock();
    let block = match res {
        Res::Zone(ref tz) if with_run(|r| r.track_blocks) => zone_block_of(tz)
            .map(|addr| (addr, crate::alloc::live_at(addr).map_or(0, |l| l.1))),
        _ => None,
    };
    with_run(|r| {
        let op = &mut r.ops[id as usize];
        op.ret = Some(ret);
        op.clk_ret = clk;
        op.res = res;
        op.zone_block = block;
    });
    sim::set_cur_op(u32::MAX);
}

/// Runs `f` (a call into jiff), turning a panic into `Err(message)`. The
/// run-abort payload is propagated.
fn guarded<T>(f: impl FnOnce() -> T) -> Result<T, String> {
    match std::panic::catch_unwind(std::panic::AssertUnwindSafe(f)) {
        Ok(t) => Ok(t),
        Err(p) => {
            if p.is::<AbortRun>() {
                std::panic::resume_unwind(p);
            }
            let loc = sim::with_rt(|rt| rt.last_panic.take());
            Err(loc.unwrap_or_else(|| sim::panic_message(&*p)))
        }
    }
}

fn open_db(backend: Backend, path: &PathBuf) -> Result<TimeZoneDatabase, jiff::Error> {
    match backend {
        Backend::ZoneInfo => TimeZoneDatabase::from_dir(path),
        Backend::Concatenated => TimeZoneDatabase::from_concatenated_path(path),
        Backend::Bundled => Ok(TimeZoneDatabase::bundled()),
    }
}

fn do_open(thread: u8) -> Option<Handle> {
    let (backend, path, cache) = with_run(|r| {
        let c = r.next_cache;
        r.next_cache += 1;
        // All bundled databases share one process-global cache.
        let c = if r.case.backend == Backend::Bundled { 0 } else { c };
        (r.case.backend, r.disk.db_path(), c)
    });
    let id = begin_op(thread, OpKind::Open, cache);
    match guarded(|| open_db(backend, &path)) {
        Ok(Ok(db)) => {
            end_op(id, Res::OpenOk);
            Some(Handle { db, cache })
        }
        Ok(Err(e)) => {
            end_op(id, Res::OpenErr(e.to_string()));
            None
        }
        Err(msg) => {
            end_op(id, Res::Panic(msg));
            None
        }
    }
}

fn step_done(kind: &'static str, name: Option<usize>) {
    let seq = sim::note("disk.step");
    with_run(|r| {
        r.disk.snapshot(seq);
        r.fault_steps.push((seq, kind, name));
    });
}

fn step_done_with(kind: &'static str, name: Option<usize>, f: &std::fs::File) {
    let seq = sim::note("disk.step");
    with_run(|r| {
        r.disk.snapshot(seq);
        r.disk.note_handle(f, seq);
        r.fault_steps.push((seq, kind, name));
    });
}

fn cur_bytes(name: usize) -> Option<Vec<u8>> {
    with_run(|r| {
        let snap = r.disk.snaps.last()?;
        match snap.views[name] {
            View::Bytes { content, .. } => Some(r.disk.content(content).to_vec()),
            _ => None,
        }
    })
}

fn apply_corrupt(bytes: &mut Vec<u8>, how: &CorruptHow) {
    match *how {
        CorruptHow::Flip { pos, bit } => {
            if !bytes.is_empty() {
                let i = pos as usize % bytes.len();
                bytes[i] ^= 1 << (bit % 8);
            }
        }
        CorruptHow::Truncate { len } => {
            let l = len as usize % (bytes.len() + 1);
            bytes.truncate(l);
        }
        CorruptHow::Magic => {
            for b in bytes.iter_mut().take(4) {
                *b = b'X';
            }
        }
    }
}

/// Current image entries with `name` set to `blob` (or removed).
fn image_with(name: usize, blob: Option<Vec<u8>>) -> Vec<(String, Vec<u8>)> {
    with_run(|r| {
        let uname = r.case.universe[name].clone();
        let mut entries = r.disk.image_entries.clone().unwrap_or_default();
        entries.retain(|e| e.0 != uname);
        if let Some(b) = blob {
            entries.push((uname, b));
        }
        entries
    })
}

fn write_image(entries: Vec<(String, Vec<u8>)>, mtime_none: bool) {
    with_run(|r| {
        let t = if mtime_none {
            r.disk.unavailable_mtime()
        } else {
            r.disk.fresh_mtime()
        };
        let raw = zonegen::android_image("2099z", &entries);
        r.disk.cc_replace_image(Some(entries), &raw, t);
    });
}

fn exec_fault_zoneinfo(f: &Fault) {
    let kind = f.kind();
    let uname = |i: usize| with_run(|r| r.case.universe[i].clone());
    match f {
        Fault::Replace { name, content, mtime_none } => {
            let n = uname(*name);
            let bytes = content.bytes();
            with_run(|r| {
                let t = if *mtime_none {
                    r.disk.unavailable_mtime()
                } else {
                    r.disk.fresh_mtime()
                };
                r.disk.zi_replace(&n, &bytes, t);
            });
            step_done(kind, Some(*name));
        }
        Fault::Rewrite { name, content, abandon } => {
            let n = uname(*name);
            let bytes = content.bytes();
            let half = bytes.len() / 2;
            let exists = with_run(|r| r.disk.zi_path(&n).is_file());
            if !exists {
                // Nothing to rewrite in place: create it atomically.
                with_run(|r| {
                    let t = r.disk.fresh_mtime();
                    r.disk.zi_replace(&n, &bytes, t);
                });
                step_done(kind, Some(*name));
                return;
            }
            // The writer keeps one handle open across all three steps.
            let Some(file) = with_run(|r| {
                let p = r.disk.zi_path(&n);
                r.disk.open_rw(&p)
            }) else {
                step_done(kind, Some(*name));
                return;
            };
            with_run(|r| {
                let t = r.disk.fresh_mtime();
                r.disk.fd_truncate(&file, t);
            });
            step_done_with(kind, Some(*name), &file);
            if *abandon == 1 {
                return; // the writer crashed: the empty file stays
            }
            sim::yield_point("fault.rewrite.1");
            with_run(|r| {
                let t = r.disk.fresh_mtime();
                r.disk.fd_write_at(&file, 0, &bytes[..half], t);
            });
            step_done_with(kind, Some(*name), &file);
            if *abandon == 2 {
                return; // the writer crashed: the torn file stays
            }
            sim::yield_point("fault.rewrite.2");
            with_run(|r| {
                let t = r.disk.fresh_mtime();
                r.disk.fd_write_at(&file, half as u64, &bytes[half..], t);
            });
            step_done_with(kind, Some(*name), &file);
        }
        Fault::Touch { name } => {
            let n = uname(*name);
            with_run(|r| {
                let t = r.disk.fresh_mtime();
                r.disk.zi_touch(&n, t);
            });
            step_done(kind, Some(*name));
        }
        Fault::MtimeNone { name } => {
            let n = uname(*name);
            with_run(|r| {
                let t = r.disk.unavailable_mtime();
                r.disk.zi_touch(&n, t);
            });
            step_done(kind, Some(*name));
        }
        Fault::Remove { name } => {
            let n = uname(*name);
            with_run(|r| r.disk.zi_remove(&n));
            step_done(kind, Some(*name));
        }
        Fault::Corrupt { name, how } => {
            let n = uname(*name);
            if let Some(mut bytes) = cur_bytes(*name) {
                let is_file = with_run(|r| {
                    std::fs::symlink_metadata(r.disk.zi_path(&n))
                        .map(|m| m.is_file())
                        .unwrap_or(false)
                });
                if is_file {
                    apply_corrupt(&mut bytes, how);
                    with_run(|r| {
                        let t = r.disk.fresh_mtime();
                        match how {
                            CorruptHow::Truncate { .. } => {
                                r.disk.zi_set_len(&n, bytes.len() as u64, t)
                            }
                            _ => r.disk.zi_write_at(&n, 0, &bytes, t),
                        }
                    });
                }
            }
            step_done(kind, Some(*name));
        }
        Fault::Unreadable { name, how } => {
            let n = uname(*name);
            with_run(|r| match how {
                UnreadableHow::Directory => r.disk.zi_make_dir(&n),
                UnreadableHow::DanglingSymlink => {
                    r.disk.zi_symlink(&n, std::path::Path::new("no-such-target"))
                }
                UnreadableHow::SymlinkLoop => {
                    let leaf = std::path::Path::new(&n)
                        .file_name()
                        .unwrap()
                        .to_os_string();
                    r.disk.zi_symlink(&n, std::path::Path::new(&leaf))
                }
            });
            step_done(kind, Some(*name));
        }
        Fault::Retarget { target } => {
            let alias = with_run(|r| r.case.alias);
            if let Some((a, _)) = alias {
                let an = uname(a);
                let tn = uname(*target);
                with_run(|r| {
                    let abs = r.disk.zi_path(&tn);
                    r.disk.zi_symlink(&an, &abs)
                });
            }
            step_done(kind, None);
        }
        Fault::DirSwap { new } => {
            // Stage the complete new tree, then two renames.
            with_run(|r| {
                let stage = r.disk.stage_dir().join("zi.new");
                let _ = std::fs::remove_dir_all(&stage);
                let _ = std::fs::create_dir_all(&stage);
                for (i, c) in new {
                    let p = stage.join(&r.case.universe[*i]);
                    if let Some(parent) = p.parent() {
                        let _ = std::fs::create_dir_all(parent);
                    }
                    let _ = std::fs::write(&p, c.bytes());
                    let t = r.disk.fresh_mtime();
                    r.disk.set_mtime(&p, t);
                }
                if let Some((a, t)) = r.case.alias {
                    let p = stage.join(&r.case.universe[a]);
                    let target = r.disk.zi_path(&r.case.universe[t]);
                    let _ = std::os::unix::fs::symlink(target, p);
                }
                let old = r.disk.stage_dir().join("zi.old");
                let _ = std::fs::remove_dir_all(&old);
                let _ = std::fs::rename(r.disk.zi_dir(), &old);
            });
            step_done(kind, None);
            sim::yield_point("fault.dirswap.gap");
            with_run(|r| {
                let stage = r.disk.stage_dir().join("zi.new");
                let _ = std::fs::rename(&stage, r.disk.zi_dir());
                let _ = std::fs::remove_dir_all(r.disk.stage_dir().join("zi.old"));
            });
            step_done(kind, None);
        }
    }
}

fn exec_fault_concatenated(f: &Fault) {
    let kind = f.kind();
    match f {
        Fault::Replace { name, content, mtime_none } => {
            let entries = image_with(*name, Some(content.bytes()));
            write_image(entries, *mtime_none);
            step_done(kind, Some(*name));
        }
        Fault::Rewrite { name, content, abandon } => {
            let new = content.bytes();
            // Layout-preserving only: same name set, same blob size.
            let place = with_run(|r| {
                let uname = &r.case.universe[*name];
                let entries = r.disk.image_entries.as_ref()?;
                let i = entries.iter().position(|e| &e.0 == uname)?;
                if entries[i].1.len() != new.len() {
                    return None;
                }
                Some((i, zonegen::android_blob_offset(entries, i)))
            });
            match place {
                None => {
                    let entries = image_with(*name, Some(new));
                    write_image(entries, false);
                    step_done(kind, Some(*name));
                }
                Some((i, off)) => {
                    let half = new.len() / 2;
                    // One handle for both steps: if the image is replaced
                    // in between, the second half goes to the old file.
                    let (file, gen) = with_run(|r| {
                        let p = r.disk.tzdata_path();
                        (r.disk.open_rw(&p), r.disk.image_gen)
                    });
                    let Some(file) = file else {
                        step_done(kind, Some(*name));
                        return;
                    };
                    with_run(|r| {
                        let t = r.disk.fresh_mtime();
                        r.disk.fd_write_at(&file, off, &new[..half], t);
                        // Torn blob: the image is not what the entry list
                        // says until the second half lands.
                        if let Some(e) = r.disk.image_entries.as_mut() {
                            e[i].1[..half].copy_from_slice(&new[..half]);
                        }
                    });
                    step_done_with(kind, Some(*name), &file);
                    if *abandon != 0 {
                        return; // the writer crashed: the torn blob stays
                    }
                    sim::yield_point("fault.rewrite.1");
                    with_run(|r| {
                        let t = r.disk.fresh_mtime();
                        r.disk.fd_write_at(&file, off + half as u64, &new[half..], t);
                        if r.disk.image_gen == gen {
                            if let Some(e) = r.disk.image_entries.as_mut() {
                                if i < e.len() && e[i].1.len() == new.len() {
                                    e[i].1[half..].copy_from_slice(&new[half..]);
                                }
                            }
                        }
                    });
                    step_done_with(kind, Some(*name), &file);
                }
            }
        }
        Fault::Touch { .. } => {
            with_run(|r| {
                let t = r.disk.fresh_mtime();
                r.disk.cc_touch(t);
            });
            step_done(kind, f.name());
        }
        Fault::MtimeNone { .. } => {
            with_run(|r| {
                let t = r.disk.unavailable_mtime();
                r.disk.cc_touch(t);
            });
            step_done(kind, f.name());
        }
        Fault::Remove { name } => {
            let entries = image_with(*name, None);
            write_image(entries, false);
            step_done(kind, Some(*name));
        }
        Fault::Corrupt { name, how } => {
            // In place, inside the blob (or the whole file for Truncate /
            // the container magic for Magic).
            let place = with_run(|r| {
                let uname = &r.case.universe[*name];
                let entries = r.disk.image_entries.as_ref()?;
                let i = entries.iter().position(|e| &e.0 == uname)?;
                Some((
                    zonegen::android_blob_offset(entries, i),
                    entries[i].1.clone(),
                    24 + 52 * entries.len() as u64,
                ))
            });
            match (place, how) {
                (Some((off, blob, _)), CorruptHow::Flip { .. }) => {
                    let mut b = blob.clone();
                    apply_corrupt(&mut b, how);
                    with_run(|r| {
                        let t = r.disk.fresh_mtime();
                        r.disk.cc_write_at(off, &b, t);
                        // The image is still well-formed as a container,
                        // but no longer what `image_entries` says.
                        r.disk.image_entries = None;
                    });
                }
                (Some((_, _, data_off)), CorruptHow::Truncate { len }) => {
                    with_run(|r| {
                        let t = r.disk.fresh_mtime();
                        // Cut somewhere in header, index or data.
                        let total = std::fs::metadata(r.disk.tzdata_path())
                            .map(|m| m.len())
                            .unwrap_or(0);
                        let cut = if *len % 2 == 0 {
                            *len as u64 % (data_off + 1)
                        } else {
                            *len as u64 % (total + 1)
                        };
                        r.disk.cc_set_len(cut, t);
                    });
                }
                (_, _) => {
                    with_run(|r| {
                        let t = r.disk.fresh_mtime();
                        r.disk.cc_write_at(0, b"XXXX", t);
                        r.disk.image_entries = None;
                    });
                }
            }
            step_done(kind, Some(*name));
        }
        Fault::Unreadable { .. } | Fault::Retarget { .. } => {
            with_run(|r| r.disk.cc_remove());
            step_done(kind, f.name());
        }
        Fault::DirSwap { new } => {
            with_run(|r| r.disk.cc_remove());
            step_done(kind, None);
            sim::yield_point("fault.dirswap.gap");
            let entries: Vec<(String, Vec<u8>)> = with_run(|r| {
                new.iter()
                    .map(|(i, c)| (r.case.universe[*i].clone(), c.bytes()))
                    .collect()
            });
            write_image(entries, false);
            step_done(kind, None);
        }
    }
}

fn exec_op(thread: u8, op: &Op, h: &mut Option<Handle>) {
    let backend = with_run(|r| r.case.backend);
    match op {
        Op::Get { q } => {
            let Some(hd) = h.as_ref() else { return };
            let name = with_run(|r| r.disk.index_of(q));
            let id = begin_op(
                thread,
                OpKind::Get { q: q.clone(), name },
                hd.cache,
            );
            let res = match guarded(|| hd.db.get(q)) {
                Ok(Ok(tz)) => Res::Zone(tz),
                Ok(Err(e)) => Res::Err(e.to_string()),
                Err(msg) => Res::Panic(msg),
            };
            end_op(id, res);
        }
        Op::Available => {
            let Some(hd) = h.as_ref() else { return };
            let id = begin_op(thread, OpKind::Available, hd.cache);
            let res = match guarded(|| {
                hd.db
                    .available()
                    .map(|n| n.as_str().to_string())
                    .collect::<Vec<String>>()
            }) {
                Ok(names) => Res::Names(names),
                Err(msg) => Res::Panic(msg),
            };
            end_op(id, res);
        }
        Op::Reset => {
            let Some(hd) = h.as_ref() else { return };
            let id = begin_op(thread, OpKind::Reset, hd.cache);
            let res = match guarded(|| hd.db.reset()) {
                Ok(()) => Res::Unit,
                Err(msg) => Res::Panic(msg),
            };
            end_op(id, res);
        }
        Op::CloneDb => {
            let Some(hd) = h.as_ref() else { return };
            let id = begin_op(thread, OpKind::CloneDb, hd.cache);
            let res = match guarded(|| hd.db.clone()) {
                Ok(db) => {
                    let cache = hd.cache;
                    *h = Some(Handle { db, cache });
                    Res::Unit
                }
                Err(msg) => Res::Panic(msg),
            };
            end_op(id, res);
        }
        Op::Reopen => {
            // Keep the old handle if opening fails (the error itself is
            // checked by the oracle).
            if let Some(new) = do_open(thread) {
                *h = Some(new);
            }
        }
        Op::Advance { ns } => {
            let id = begin_op(thread, OpKind::Advance, u32::MAX);
            sim::advance_clock(*ns);
            end_op(id, Res::Unit);
        }
        Op::Fault(f) => {
            let id = begin_op(
                thread,
                OpKind::Fault { kind: f.kind(), name: f.name() },
                u32::MAX,
            );
            match backend {
                Backend::ZoneInfo => exec_fault_zoneinfo(f),
                Backend::Concatenated => exec_fault_concatenated(f),
                Backend::Bundled => {}
            }
            end_op(id, Res::Unit);
        }
    }
}

fn thread_main(thread: u8, ops: Vec<Op>, mut h: Option<Handle>) {
    let r = std::panic::catch_unwind(std::panic::AssertUnwindSafe(|| {
        for op in &ops {
            sim::yield_point("op.next");
            exec_op(thread, op, &mut h);
        }
        drop(h.take());
    }));
    if let Err(p) = r {
        if !p.is::<AbortRun>() {
            let msg = sim::panic_message(&*p);
            with_run(|r| {
                r.harness_error
                    .get_or_insert(format!("thread {thread} panicked: {msg}"));
            });
        }
    }
}

fn setup_disk(case: &Case) -> Result<(), String> {
    with_run(|r| -> Result<(), String> {
        r.disk.init().map_err(|e| format!("disk init: {e}"))?;
        match case.backend {
            Backend::ZoneInfo => {
                for (i, c, none) in &case.initial {
                    let t = if *none {
                        r.disk.unavailable_mtime()
                    } else {
                        r.disk.fresh_mtime()
                    };
                    let n = case.universe[*i].clone();
                    r.disk.zi_replace(&n, &c.bytes(), t);
                }
                if let Some((a, t)) = case.alias {
                    let target = r.disk.zi_path(&case.universe[t]);
                    let an = case.universe[a].clone();
                    r.disk.zi_symlink(&an, &target);
                }
                if case.decoys != 0 {
                    r.disk
                        .zi_decoys(case.decoys)
                        .map_err(|e| format!("decoys: {e}"))?;
                }
            }
            Backend::Concatenated => {
                let entries: Vec<(String, Vec<u8>)> = case
                    .initial
                    .iter()
                    .map(|(i, c, _)| (case.universe[*i].clone(), c.bytes()))
                    .collect();
                let none = case.initial.iter().any(|e| e.2);
                let t = if none {
                    r.disk.unavailable_mtime()
                } else {
                    r.disk.fresh_mtime()
                };
                let raw = zonegen::android_image("2099z", &entries);
                r.disk.cc_replace_image(Some(entries), &raw, t);
            }
            Backend::Bundled => {}
        }
        if r.disk.syscalls_failed > 0 {
            return Err("disk setup: a file system call failed".into());
        }
        r.disk.snapshot(0);
        Ok(())
    })
}

/// The body of task 0. Leaves the `RunState` in TLS for the caller.
pub fn run_case(case: Arc<Case>, root: PathBuf) {
    let mut disk = Disk::new(root, case.backend, case.universe.clone());
    disk.mtime_salt = (case.universe.len() as u64) * 31
        + (case.initial.len() as u64) * 7
        + case.threads.iter().map(|t| t.len() as u64).sum::<u64>() * 131
        + case.decoys as u64;
    disk.alias = case.alias.map(|a| a.0);
    *RUN.lock().unwrap_or_else(|e| e.into_inner()) = Some(RunState {
        case: case.clone(),
        disk,
        ops: vec![],
        next_cache: 0,
        fault_steps: vec![],
        harness_error: None,
        track_blocks: crate::c19::blocks_armed(),
    });
    sim::with_rt(|rt| {
        rt.mono = case.mono;
        rt.writer_pref = case.writer_pref;
    });
    if case.io.rate > 0 {
        sim::arm_io_faults(case.io.seed, case.io.rate, &case.io.sites);
    }
    if let Err(e) = setup_disk(&case) {
        with_run(|r| r.harness_error = Some(e));
        return;
    }
    let outer = std::panic::catch_unwind(std::panic::AssertUnwindSafe(|| {
        if case.backend == Backend::Bundled {
            // The bundled cache is process-global: start every run cold.
            let _ = guarded(|| TimeZoneDatabase::bundled().reset());
        }
        let h0 = do_open(0);
        let Some(h0) = h0 else { return };
        let mut joins = vec![];
        for (i, ops) in case.threads.iter().enumerate() {
            let ops = ops.clone();
            let h = Some(Handle { db: h0.db.clone(), cache: h0.cache });
            let t = (i + 1) as u8;
            joins.push(sim::spawn(move || thread_main(t, ops, h)));
        }
        for j in joins {
            sim::join(j);
        }
        if sim::with_rt(|rt| rt.abort.is_some()) {
            return;
        }
        // Settle phase: nothing else is running any more.
        let mut h = Some(h0);
        match case.settle {
            Settle::None => {}
            Settle::TtlThenGetAll => {
                exec_op(0, &Op::Advance { ns: crate::c19::calib::ttl_ns(case.backend) + 1 }, &mut h);
            }
            Settle::ResetThenGetAll => {
                exec_op(0, &Op::Reset, &mut h);
            }
        }
        if case.settle != Settle::None {
            for name in case.universe.iter() {
                exec_op(0, &Op::Get { q: name.clone() }, &mut h);
            }
            exec_op(0, &Op::Available, &mut h);
        }
    }));
    if let Err(p) = outer {
        if !p.is::<AbortRun>() {
            let msg = sim::panic_message(&*p);
            with_run(|r| {
                r.harness_error.get_or_insert(format!("task 0 panicked: {msg}"));
            });
        }
    }
    with_run(|r| r.disk.cleanup());
}

#[allow(dead_code)]
pub fn content_summary(c: &Content) -> String {
    match c {
        Content::Synth { k, tr } => format!("synth(k={k},tr={tr})"),
        Content::Real(i) => format!("real({})", zonegen::REAL_TZIF[*i % zonegen::REAL_TZIF.len()].0),
        Content::Garbage(b) => format!("garbage({b})"),
        Content::Truncated { k, len } => format!("truncated(k={k},len={len})"),
    }
}
