//! C19: time zone database lookups under caching, refresh and concurrency.

pub mod calib;
pub mod case;
pub mod exec;
pub mod oracle;

use std::sync::Arc;

use serde_json::{json, Value};

use crate::c19::case::*;
use crate::c19::exec::{OpKind, RunState};
use crate::disk::Backend;
use crate::driver::{Outcome, Prop, SchedSpec, Stats, Tier as DTier, Violation, WorkerCtx};
use crate::rng::Rng;
use crate::sim::{self, What};

static BLOCKS_ARMED: std::sync::atomic::AtomicBool = std::sync::atomic::AtomicBool::new(false);

/// The liveness oracle for returned zones is armed once per process, if the
/// handle layout assumption holds.
pub fn blocks_armed() -> bool {
    BLOCKS_ARMED.load(std::sync::atomic::Ordering::Relaxed)
}

fn arm_blocks() {
    static ONCE: std::sync::Once = std::sync::Once::new();
    ONCE.call_once(|| {
        crate::alloc::enable();
        if exec::zone_block_self_check() {
            BLOCKS_ARMED.store(true, std::sync::atomic::Ordering::Relaxed);
        }
    });
}

pub struct C19 {
    /// `Some(true)`: only fault-free cases; `Some(false)`: only cases with
    /// mutators; `None`: the generator's own mix.
    pub fault_free: Option<bool>,
}

fn op_summary(o: &exec::OpRec) -> Value {
    json!({
        "id": o.id,
        "thread": o.thread,
        "op": match &o.kind {
            OpKind::Open => "open".to_string(),
            OpKind::Get { q, .. } => format!("get({q:?})"),
            OpKind::Available => "available".to_string(),
            OpKind::Reset => "reset".to_string(),
            OpKind::CloneDb => "clone".to_string(),
            OpKind::Advance => "advance_clock".to_string(),
            OpKind::Fault { kind, name } => format!("fault:{kind}({name:?})"),
        },
        "cache": if o.cache == u32::MAX { Value::Null } else { json!(o.cache) },
        "inv": o.inv,
        "ret": o.ret,
        "clock_inv_ns": o.clk_inv,
        "clock_ret_ns": o.clk_ret,
        "result": oracle::res_summary(&o.res),
    })
}

fn build_trace(run: &RunState, events: &[sim::Ev], io_fired: &[(u32, &'static str, u32)]) -> Value {
    let ops: Vec<Value> = run.ops.iter().map(op_summary).collect();
    let evs: Vec<Value> = events
        .iter()
        .map(|e| {
            let (k, n) = match e.what {
                What::Site(s) => ("site", s),
                What::Note(s) => ("sim", s),
            };
            json!([e.seq, e.task, k, n, if e.op == u32::MAX { Value::Null } else { json!(e.op) }])
        })
        .collect();
    let disk: Vec<Value> = run
        .disk
        .snaps
        .iter()
        .map(|s| {
            let views: Vec<String> = s
                .views
                .iter()
                .map(|v| match v {
                    crate::disk::View::Absent => "absent".to_string(),
                    crate::disk::View::Unreadable => "unreadable".to_string(),
                    crate::disk::View::Bytes { content, mtime, ino } => {
                        format!("content#{content} mtime={mtime:?} ino={ino}")
                    }
                })
                .collect();
            json!({"from_event": s.begin, "names": views, "container_ok": s.container_ok,
                   "alias_target": s.alias_target, "other_index_names": s.extra_names, "image_ino": s.image_ino})
        })
        .collect();
    json!({ "ops": ops, "events": evs, "event_format": ["seq", "task", "kind", "name", "op"], "disk_states": disk,
            "injected_io_errors": io_fired.iter().map(|f| json!({"event": f.0, "site": f.1, "op": if f.2 == u32::MAX { Value::Null } else { json!(f.2) }})).collect::<Vec<_>>() })
}

/// (a fault step landed inside an in-flight database operation,
///  database operations of two different threads overlapped)
fn classify(run: &RunState) -> (bool, bool) {
    let is_db = |o: &exec::OpRec| {
        matches!(
            o.kind,
            OpKind::Get { .. } | OpKind::Available | OpKind::Open | OpKind::Reset
        )
    };
    let landed = run.fault_steps.iter().any(|&(seq, _, _)| {
        run.ops
            .iter()
            .any(|o| is_db(o) && o.inv < seq && o.ret.map_or(true, |r| r > seq))
    });
    let db_ops: Vec<&exec::OpRec> = run.ops.iter().filter(|o| is_db(o)).collect();
    let mut overlap = false;
    'o: for (i, a) in db_ops.iter().enumerate() {
        for b in db_ops[i + 1..].iter() {
            if a.thread != b.thread
                && a.inv < b.ret.unwrap_or(u32::MAX)
                && b.inv < a.ret.unwrap_or(u32::MAX)
            {
                overlap = true;
                break 'o;
            }
        }
    }
    (landed, overlap)
}

fn result_fingerprint(run: &RunState, fp: u64) -> u64 {
    let mut h = crate::rng::Fnv(fp);
    for o in run.ops.iter() {
        h.u64(o.inv as u64);
        h.u64(o.ret.unwrap_or(0) as u64);
        h.u64(o.clk_inv);
        // Error texts contain the scratch path (pid, worker), which is not
        // part of the behaviour: hash only that it was an error.
        match &o.res {
            exec::Res::Err(_) => h.bytes(b"Err"),
            exec::Res::OpenErr(_) => h.bytes(b"OpenErr"),
            other => h.bytes(oracle::res_summary(other).as_bytes()),
        }
    }
    h.0
}

impl C19 {
    /// Returns whether the run is non-trivial: a fault step landed inside
    /// an in-flight database operation, or database operations of two
    /// threads overlapped.
    fn collect_stats(&self, stats: &mut Stats, run: &RunState, events: &[sim::Ev], ostats: &oracle::OracleStats) {
        let case = &run.case;
        stats.add(
            match case.backend {
                Backend::ZoneInfo => "backend.zoneinfo",
                Backend::Concatenated => "backend.concatenated",
                Backend::Bundled => "backend.bundled",
            },
            1,
        );
        if case.fault_free {
            stats.add("runs.fault_free", 1);
        } else {
            stats.add("runs.with_faults", 1);
        }
        if !case.mono {
            stats.add("fault.no_monotonic_clock.runs", 1);
        }
        stats.add(
            match case.threads.len() {
                1 => "threads.1",
                2 => "threads.2",
                3 => "threads.3",
                4 => "threads.4",
                5 => "threads.5",
                _ => "threads.6",
            },
            1,
        );
        // Which ops of other threads was each fault step inside of?
        let mut landed_any = false;
        for o in run.case.threads.iter().flatten() {
            if let Op::Fault(Fault::Rewrite { abandon, .. }) = o {
                if *abandon != 0 {
                    stats.add("fault.writer_crash_mid_rewrite.generated", 1);
                }
            }
        }
        for &(seq, kind, _) in run.fault_steps.iter() {
            let key_gen: &'static str = fault_key(kind, false);
            stats.add(key_gen, 1);
            let inflight = run.ops.iter().any(|o| {
                matches!(
                    o.kind,
                    OpKind::Get { .. } | OpKind::Available | OpKind::Open | OpKind::Reset
                ) && o.inv < seq
                    && o.ret.map_or(true, |r| r > seq)
            });
            if inflight {
                landed_any = true;
                stats.add(fault_key(kind, true), 1);
            }
        }
        let (_, overlap) = classify(run);
        for o in run.ops.iter() {
            match o.kind {
                OpKind::Advance => {
                    stats.add("fault.clock_jump.generated", 1);
                    let inflight = run.ops.iter().any(|p| {
                        matches!(p.kind, OpKind::Get { .. } | OpKind::Available)
                            && p.inv < o.inv
                            && p.ret.map_or(true, |r| r > o.inv)
                    });
                    if inflight {
                        stats.add("fault.clock_jump.landed_in_flight", 1);
                    }
                }
                OpKind::Open if o.id != 0 => stats.add("fault.cold_restart.generated", 1),
                OpKind::Reset => stats.add("fault.reset.generated", 1),
                _ => {}
            }
        }
        if overlap {
            stats.add("runs.with_overlapping_db_ops", 1);
        }
        if landed_any {
            stats.add("runs.with_fault_in_flight", 1);
        }
        for e in events {
            if let What::Site(s) = e.what {
                stats.add(site_key(s), 1);
            }
        }
        stats.add("oracle.get_ok", ostats.gets_ok);
        stats.add("oracle.get_err", ostats.gets_err);
        stats.add("oracle.get_ok_justified_by_earlier_lookup", ostats.gets_ok_by_earlier_witness);
        stats.add("oracle.get_err_justified_by_earlier_index", ostats.gets_err_by_earlier_witness);
        stats.add("oracle.available", ostats.availables);
        stats.add("oracle.available_relaxed", ostats.availables_relaxed);
        stats.add("oracle.open_failed", ostats.opens_failed);
        stats.add("oracle.reuse_checked", ostats.reuse_checked);
        stats.add("oracle.hostile_checked", ostats.hostile_checked);
        stats.add("oracle.settle_gets", ostats.settle_gets);
        stats.add("oracle.err_justified_by_injected_io_error", ostats.errs_justified_by_io_fault);
        stats.add("disk.snapshots", run.disk.snaps.len() as u64);
        // Mutations that did not apply (e.g. touching a name that is
        // currently a dangling symlink).
        stats.add("disk.mutation_syscalls_failed", run.disk.syscalls_failed);
    }
}

fn fault_key(kind: &str, landed: bool) -> &'static str {
    macro_rules! k {
        ($($n:literal),*) => {
            match (kind, landed) {
                $(($n, false) => concat!("fault.", $n, ".generated"),
                  ($n, true) => concat!("fault.", $n, ".landed_in_flight"),)*
                _ => "fault.other",
            }
        };
    }
    k!(
        "atomic_replace",
        "inplace_rewrite",
        "touch",
        "remove",
        "corrupt",
        "unreadable",
        "retarget_alias",
        "dir_swap",
        "mtime_unavailable"
    )
}

fn io_key(site: &str) -> &'static str {
    macro_rules! k {
        ($($n:literal),*) => {
            match site {
                $($n => concat!("fault.io_error.at.", $n),)*
                _ => "fault.io_error.at.other",
            }
        };
    }
    k!(
        "zi.new.open", "zi.new.read", "zi.walk.read_dir", "zi.walk.open", "fs.mtime.open",
        "fs.mtime.metadata", "cc.new.open", "cc.names.open", "cc.read_at"
    )
}

fn site_key(site: &'static str) -> &'static str {
    macro_rules! k {
        ($($n:literal),*) => {
            match site {
                $($n => concat!("site.", $n),)*
                _ => "site.other",
            }
        };
    }
    k!(
        "zi.reset.zones", "zi.get.zones_read", "zi.get.zones_read_held", "zi.get.fast_hit", "zi.get.zones_write",
        "zi.names.get_read_held", "cc.get.zones_read_held",
        "zi.get.revalidate_ok", "zi.get.reload", "zi.get.load", "zi.new.open", "zi.new.read",
        "zi.new.stat", "zi.revalidate.stat", "zi.names.walk_new", "zi.names.get_read",
        "zi.names.get_write", "zi.names.available", "zi.names.reset", "zi.names.walk_refresh",
        "zi.walk.read_dir",
        "cc.reset.zones", "cc.get.zones_read", "cc.get.fast_hit", "cc.get.zones_write",
        "cc.get.revalidate_ok", "cc.get.reload", "cc.get.load", "cc.new.open", "cc.new.stat",
        "cc.revalidate.stat", "cc.names.available", "cc.names.reset", "cc.names.open",
        "cc.read_at", "bd.get", "bd.add", "bd.clear"
    )
}

impl Prop for C19 {
    type Case = Case;

    fn id(&self) -> &'static str {
        "C19"
    }

    fn generate(&self, rng: &mut Rng, tier: DTier, _run: u64) -> Case {
        let t = match tier {
            DTier::Quick => Tier::Quick,
            DTier::Thorough => Tier::Thorough,
        };
        generate(rng, t, self.fault_free)
    }

    fn est_len(&self, case: &Case) -> u32 {
        let ops: usize = case.threads.iter().map(|t| t.len()).sum();
        (ops as u32) * 12 + 20
    }

    fn execute(
        &self,
        case: &Arc<Case>,
        sched: &SchedSpec,
        ctx: &WorkerCtx,
        stats: Option<&mut Stats>,
        want_trace: bool,
    ) -> Outcome {
        arm_blocks();
        let root = ctx.dir.join("r");
        let c = case.clone();
        // The bundled back-end's cache is one process-global static: runs
        // that use it are serialised across workers, so that each simulated
        // run still owns every lock it can observe.
        static BUNDLED: std::sync::Mutex<()> = std::sync::Mutex::new(());
        let _guard = if case.backend == Backend::Bundled {
            Some(BUNDLED.lock().unwrap_or_else(|e| e.into_inner()))
        } else {
            None
        };
        let out = sim::exec_one(
            sched.policy(),
            sched.seed,
            sched.choices.clone(),
            200_000,
            move || exec::run_case(c.clone(), root.clone()),
        );
        let run = exec::take_run();
        let (events, fp, abort_site, clock, io_fired, io_asked) = sim::with_rt(|rt| {
            (
                std::mem::take(&mut rt.events),
                rt.fp.0,
                rt.abort_site,
                rt.clock_ns,
                std::mem::take(&mut rt.io_fired),
                rt.io_asked,
            )
        });
        let mut harness_error = out.escaped_panic.map(|m| format!("panic escaped the execution: {m}"));
        let mut stats_blocks = 0u64;
        let Some(run) = run else {
            return Outcome {
                fingerprint: 0,
                nontrivial: false,
                violations: vec![],
                harness_error: harness_error.or(Some("no run state".into())),
                choices: out.choices,
                trace: Value::Null,
            };
        };
        if let Some(e) = run.harness_error.clone() {
            harness_error.get_or_insert(e);
        }
        if out.abort == Some(sim::Abort::Stuck) {
            harness_error.get_or_insert("scheduler stuck: no runnable task".into());
        }
        let mut violations = vec![];
        let mut ostats = oracle::OracleStats::default();
        // Memory: every zone a lookup returned is still held by the harness,
        // so the block its handle points into must still be allocated (and
        // must have been when the lookup returned). Checked *before* the
        // oracle reads any of those zones.
        let mut dangling = false;
        if harness_error.is_none() && run.track_blocks {
            for o in run.ops.iter() {
                if let Some((addr, serial)) = o.zone_block {
                    let now = crate::alloc::live_at(addr).map(|l| l.1);
                    if serial == 0 || now != Some(serial) {
                        dangling = true;
                        violations.push(Violation {
                            clause: "dangling_zone".into(),
                            detail: format!(
                                "op {} (thread {}): the zone returned by {:?} points into memory that {} although the caller still holds the handle",
                                o.id,
                                o.thread,
                                o.kind,
                                if serial == 0 { "was not allocated when the lookup returned" } else { "has been freed since" },
                            ),
                        });
                        break;
                    }
                }
            }
            stats_blocks = run.ops.iter().filter(|o| o.zone_block.is_some()).count() as u64;
        }
        if dangling {
            // Do not touch (or drop) the dangling handles.
            let out_choices = out.choices;
            std::mem::forget(run);
            return Outcome {
                fingerprint: fp,
                nontrivial: true,
                violations,
                harness_error: None,
                choices: out_choices,
                trace: Value::Null,
            };
        }
        if harness_error.is_none() {
            let mut o = oracle::Oracle::new(&run, &events, &io_fired);
            // Testing aid (never set by the registered commands): ignore
            // some clauses to see which *other* clauses catch a change.
            let skip = std::env::var("JIFFSIM_SKIP_CLAUSES").unwrap_or_default();
            for v in o.check(&out.abort, abort_site) {
                if !skip.is_empty() && skip.split(',').any(|c| c == v.clause) {
                    continue;
                }
                violations.push(Violation {
                    clause: v.clause.to_string(),
                    detail: match v.op {
                        Some(id) => format!("op {id} (thread {}): {}", run.ops[id as usize].thread, v.detail),
                        None => v.detail,
                    },
                });
            }
            ostats = o.stats.clone();
        }
        if let Some(stats) = stats {
            stats.steps += out.steps;
            stats.switches += out.switches;
            stats.sim_ns += clock as u128;
            stats.add("clock.simulated_seconds_in_steps_up_to_1h", sim::with_rt(|rt| rt.clock_small_ns) / 1_000_000_000);
            self.collect_stats(stats, &run, &events, &ostats);
            stats.add("oracle.returned_zones_checked_live", stats_blocks);
            stats.add("fault.io_error.sites_asked", io_asked);
            for f in io_fired.iter() {
                stats.add("fault.io_error.injected", 1);
                stats.add(io_key(f.1), 1);
            }
            if !io_fired.is_empty() {
                stats.add("runs.with_io_error", 1);
            }
        }
        let (landed, overlap) = classify(&run);
        let fingerprint = result_fingerprint(&run, fp);
        // Leak: once the harness drops every returned zone (the databases
        // are gone already), the blocks must be freed. The bundled back-end
        // keeps its handles in a process-global cache and is exempt.
        let blocks: Vec<(u32, usize, u64)> = if run.track_blocks
            && violations.is_empty()
            && harness_error.is_none()
            && case.backend != Backend::Bundled
        {
            run.ops
                .iter()
                .filter_map(|o| o.zone_block.map(|b| (o.id, b.0, b.1)))
                .collect()
        } else {
            vec![]
        };
        let trace_pre = if want_trace || !violations.is_empty() {
            build_trace(&run, &events, &io_fired)
        } else {
            Value::Null
        };
        drop(run);
        for (id, addr, serial) in blocks {
            if crate::alloc::live_at(addr).map(|l| l.1) == Some(serial) {
                violations.push(Violation {
                    clause: "zone_leak".into(),
                    detail: format!(
                        "the zone returned by op {id} is still allocated after the database and every handle to it were dropped"
                    ),
                });
                break;
            }
        }
        let trace = trace_pre;
        // Testing aid, see above.
        let skip = std::env::var("JIFFSIM_SKIP_CLAUSES").unwrap_or_default();
        if !skip.is_empty() {
            violations.retain(|v| !skip.split(',').any(|c| c == v.clause));
        }
        Outcome {
            fingerprint,
            nontrivial: landed || overlap,
            violations,
            harness_error,
            choices: out.choices,
            trace,
        }
    }

    fn worker_args(&self) -> Vec<String> {
        let ff = match self.fault_free {
            Some(true) => "only",
            Some(false) => "never",
            None => "mixed",
        };
        vec!["--prop".into(), "c19".into(), "--ff".into(), ff.into()]
    }

    /// A memory bug in the database's handling of its cached handles can
    /// take the process down: attribute worker crashes to their run and
    /// minimise / replay in child processes.
    fn isolate(&self) -> bool {
        true
    }

    fn size(&self, case: &Case) -> usize {
        let ops: usize = case.threads.iter().map(|t| t.len()).sum();
        ops * 4
            + case.threads.len() * 2
            + case.initial.len()
            + if case.settle == Settle::None { 0 } else { 1 }
            + if case.alias.is_some() { 1 } else { 0 }
    }

    fn shrink(&self, case: &Case) -> Vec<Case> {
        let mut out = vec![];
        // Drop a whole thread.
        for t in 0..case.threads.len() {
            if case.threads.len() > 1 {
                let mut c = case.clone();
                c.threads.remove(t);
                out.push(c);
            }
        }
        // Drop the second half / one op of a thread.
        for t in 0..case.threads.len() {
            let n = case.threads[t].len();
            if n >= 4 {
                let mut c = case.clone();
                c.threads[t].truncate(n / 2);
                out.push(c);
                let mut c = case.clone();
                c.threads[t].drain(..n / 2);
                out.push(c);
            }
            for i in 0..n {
                let mut c = case.clone();
                c.threads[t].remove(i);
                if c.threads[t].is_empty() && c.threads.len() > 1 {
                    c.threads.remove(t);
                }
                out.push(c);
            }
        }
        if case.settle != Settle::None {
            let mut c = case.clone();
            c.settle = Settle::None;
            out.push(c);
        }
        for i in 0..case.initial.len() {
            if case.initial.len() > 1 {
                let mut c = case.clone();
                c.initial.remove(i);
                out.push(c);
            }
        }
        out
    }
}
