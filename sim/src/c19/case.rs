//! C19 cases: configuration + one explicit program per simulated thread.
//! Everything is serialisable so that a replay file is self-contained.

use serde::{Deserialize, Serialize};

use crate::disk::{Backend, Content};
use crate::rng::Rng;
use crate::zonegen;

pub const TTL_NS: u64 = 300 * 1_000_000_000;

#[derive(Clone, Debug, PartialEq, Eq, Serialize, Deserialize)]
pub enum CorruptHow {
    /// Flip one bit of the byte at `pos % len`.
    Flip { pos: u32, bit: u8 },
    /// Cut the file to `len % (old_len + 1)` bytes.
    Truncate { len: u32 },
    /// Overwrite the first four bytes (kills the TZif magic).
    Magic,
}

#[derive(Clone, Debug, PartialEq, Eq, Serialize, Deserialize)]
pub enum UnreadableHow {
    Directory,
    DanglingSymlink,
    SymlinkLoop,
}

/// Fault kinds (DESIGN.md 3.3). Interpreted per back-end by `exec`.
#[derive(Clone, Debug, PartialEq, Eq, Serialize, Deserialize)]
pub enum Fault {
    /// Atomic replace or create (write staged file + rename).
    Replace { name: usize, content: Content, mtime_none: bool },
    /// In-place rewrite: truncate / first half / rest as three steps with
    /// scheduling points in between (zoneinfo); for the concatenated
    /// back-end a layout-preserving rewrite of the blob in two halves.
    ///
    /// `abandon`: the writer crashes after step 1 (`1`) or step 2 (`2`) and
    /// the torn file stays on disk; `0`: the rewrite completes.
    Rewrite {
        name: usize,
        content: Content,
        #[serde(default)]
        abandon: u8,
    },
    Touch { name: usize },
    Remove { name: usize },
    Corrupt { name: usize, how: CorruptHow },
    Unreadable { name: usize, how: UnreadableHow },
    /// Point the symlink alias at another zone.
    Retarget { target: usize },
    /// Swap the whole database (directory / image) for a new one in two
    /// steps, with a moment in between where it does not exist.
    DirSwap { new: Vec<(usize, Content)> },
    MtimeNone { name: usize },
}

impl Fault {
    pub fn kind(&self) -> &'static str {
        match self {
            Fault::Replace { .. } => "atomic_replace",
            Fault::Rewrite { .. } => "inplace_rewrite",
            Fault::Touch { .. } => "touch",
            Fault::Remove { .. } => "remove",
            Fault::Corrupt { .. } => "corrupt",
            Fault::Unreadable { .. } => "unreadable",
            Fault::Retarget { .. } => "retarget_alias",
            Fault::DirSwap { .. } => "dir_swap",
            Fault::MtimeNone { .. } => "mtime_unavailable",
        }
    }
    pub fn name(&self) -> Option<usize> {
        match *self {
            Fault::Replace { name, .. }
            | Fault::Rewrite { name, .. }
            | Fault::Touch { name }
            | Fault::Remove { name }
            | Fault::Corrupt { name, .. }
            | Fault::Unreadable { name, .. }
            | Fault::MtimeNone { name } => Some(name),
            Fault::Retarget { .. } | Fault::DirSwap { .. } => None,
        }
    }
}

pub const FAULT_KINDS: &[&str] = &[
    "atomic_replace",
    "inplace_rewrite",
    "touch",
    "remove",
    "corrupt",
    "unreadable",
    "retarget_alias",
    "dir_swap",
    "mtime_unavailable",
];

#[derive(Clone, Debug, PartialEq, Eq, Serialize, Deserialize)]
pub enum Op {
    Get { q: String },
    Available,
    Reset,
    CloneDb,
    /// Drop the handle and open the database again (cold cache): a process
    /// restart with only the disk surviving.
    Reopen,
    Advance { ns: u64 },
    Fault(Fault),
}

#[derive(Clone, Copy, Debug, PartialEq, Eq, Serialize, Deserialize)]
pub enum Settle {
    None,
    /// After all threads finish: advance the clock past the TTL, then look
    /// up every name. With no fault in flight the answer must be exactly
    /// what is on disk.
    TtlThenGetAll,
    /// Same with `reset()` instead of the clock.
    ResetThenGetAll,
}

#[derive(Clone, Debug, PartialEq, Eq, Serialize, Deserialize)]
pub struct Case {
    pub backend: Backend,
    /// On-disk spellings of all names that may exist during the run.
    pub universe: Vec<String>,
    /// Files present at start: (name index, content, mtime unavailable).
    pub initial: Vec<(usize, Content, bool)>,
    /// zoneinfo only: `universe[alias.0]` is a symlink to `universe[alias.1]`.
    pub alias: Option<(usize, usize)>,
    /// Is a monotonic clock available at all?
    pub mono: bool,
    pub threads: Vec<Vec<Op>>,
    pub settle: Settle,
    pub fault_free: bool,
    /// Injected I/O errors (EIO-style failures of jiff's own file system
    /// calls): decided per call by a PRNG seeded with `seed`; each call at
    /// one of `sites` fails with probability `rate/16`.
    #[serde(default)]
    pub io: IoFaults,
    /// zoneinfo: which non-zone entries the directory also contains.
    #[serde(default)]
    pub decoys: u32,
    /// Lock policy of this run: does a thread waiting for a write lock keep
    /// new readers out (std leaves it unspecified; Linux's does)?
    #[serde(default)]
    pub writer_pref: bool,
}

#[derive(Clone, Debug, Default, PartialEq, Eq, Serialize, Deserialize)]
pub struct IoFaults {
    pub seed: u64,
    pub rate: u8,
    pub sites: Vec<String>,
}

pub const IO_SITES: &[&str] = &[
    "zi.new.open",
    "zi.new.read",
    "zi.walk.read_dir",
    "zi.walk.open",
    "fs.mtime.open",
    "fs.mtime.metadata",
    "cc.new.open",
    "cc.names.open",
    "cc.read_at",
];

/// Name pool: stresses the case-folded sorted index (`_` sorts between
/// upper- and lower-case letters), nesting, and aliases. No two names are
/// equal under ASCII case folding (assumption A2).
pub const NAME_POOL: &[&str] = &[
    "A/b",
    "a/B_",
    "a/Ba",
    "Zed",
    "Deep/er/Zone",
    "a/b-c",
    "Etc/GMT+1",
    "zulu",
    "B",
    "a/B",
    "[x]",
    "A_/Z",
];

pub const BUNDLED_NAMES: &[&str] = &[
    "America/New_York",
    "Europe/Dublin",
    "Australia/Tasmania",
    "Asia/Kolkata",
    "UTC",
    "Etc/Unknown",
    "Pacific/Honolulu",
    "America/Sao_Paulo",
    // Aliases: other names for the *same embedded data* as a name above.
    // Each must come back under the spelling the tz database lists it with.
    "US/Eastern",
    "Asia/Calcutta",
    "Etc/UTC",
    "Australia/Hobart",
    "US/Hawaii",
];

/// Names longer than any tz database identifier (zoneinfo only: the
/// concatenated format caps names at 40 bytes): 64 bytes, the same plus two
/// (so that both share a 64-byte prefix), and 80 bytes in nested directories.
pub fn long_names() -> [String; 3] {
    let n64 = format!("Long/Name_{}", "Xy".repeat(27));
    let n66 = format!("{n64}_2");
    let n80 = format!("Longer/Path/Zone_{}c", "Ab".repeat(31));
    assert_eq!((n64.len(), n66.len(), n80.len()), (64, 66, 80));
    [n64, n66, n80]
}

pub const HOSTILE: &[&str] = &[
    "../x",
    "",
    "/",
    ".",
    "..",
    "A//b",
    "A/b/",
    "/A/b",
    "A/b\0",
    "A\\b",
    "Nope/Zone",
    "a/b\u{e9}",
    "\u{212a}ed",
    "ZZZZZZZZZZZZZZZZZZZZZZZZZZZZZZZZZZZZZZZZZZZZZZZZZZZZZZZZZZZZZZZZZZZZZZZZZZZZZZZZZZZZZZZZZZZZZZZZZZZZZZZZZZZZZZZZZZZZZZZZZZZZZZZZZZZZZZZZZZZZZZZZZZZZZZZZZZZZZZZZZZZZZZZZZZZZZZZZZZZZZZZZZZZZZZZZZZZZZZZZZZZZZZZZZZZZZZZZZZZZZZZZZZZZZZZZZZZZZZZZZZZZZZZZZZZZZZZZZZZZZZZZZZZZZZZZZZZZZZZZZZZZZZZZZZZZZZZZZZZZZZZZZZZ",
];

#[derive(Clone, Copy, Debug, PartialEq, Eq)]
pub enum Tier {
    Quick,
    Thorough,
}

pub struct Gen<'a> {
    rng: &'a mut Rng,
    next_k: u32,
    /// The (measured) time-to-live of the back-end of this case.
    ttl_ns: u64,
}

impl<'a> Gen<'a> {
    fn content(&mut self, allow_real: bool) -> Content {
        if allow_real && self.rng.chance(1, 25) {
            let k = self.next_k;
            self.next_k += 1;
            return Content::Truncated { k, len: 4 + self.rng.below(100) as u8 };
        }
        if allow_real && self.rng.chance(1, 6) {
            Content::Real(self.rng.usize_below(zonegen::REAL_TZIF.len()))
        } else {
            let k = self.next_k;
            self.next_k += 1;
            Content::Synth { k, tr: self.rng.chance(1, 3) }
        }
    }

    fn random_case(&mut self, s: &str) -> String {
        match self.rng.below(4) {
            0 => s.to_string(),
            1 => s.to_ascii_lowercase(),
            2 => s.to_ascii_uppercase(),
            _ => s
                .chars()
                .map(|c| {
                    if self.rng.chance(1, 2) {
                        c.to_ascii_uppercase()
                    } else {
                        c.to_ascii_lowercase()
                    }
                })
                .collect(),
        }
    }

    fn advance(&mut self) -> u64 {
        let t = self.ttl_ns.max(4);
        if self.rng.chance(3, 5) {
            *self.rng.pick(&[
                0,
                1,
                t - 1,
                t,
                t + 1,
                2 * t,
                t / 2,
                t / 2 + 1,
                100 * 365 * 86_400 * 1_000_000_000,
            ])
        } else {
            self.rng.below(2 * t + 2)
        }
    }
}

/// Draws one case from `rng` (DESIGN.md Appendix C).
pub fn generate(rng: &mut Rng, tier: Tier, force_fault_free: Option<bool>) -> Case {
    let mut g = Gen { rng, next_k: 1, ttl_ns: TTL_NS };
    let backend = match g.rng.weighted(&[60, 33, 7]) {
        0 => Backend::ZoneInfo,
        1 => Backend::Concatenated,
        _ => Backend::Bundled,
    };
    g.ttl_ns = crate::c19::calib::ttl_ns(backend);
    let fault_free =
        force_fault_free.unwrap_or_else(|| g.rng.chance(1, 5)) || backend == Backend::Bundled;
    let max_ops = match tier {
        Tier::Quick => 10,
        Tier::Thorough => 16,
    };

    // Universe.
    let mut universe: Vec<String> = vec![];
    let mut alias = None;
    if backend == Backend::Bundled {
        let n = 2 + g.rng.usize_below(4);
        let mut pool: Vec<&str> = BUNDLED_NAMES.to_vec();
        for _ in 0..n {
            let i = g.rng.usize_below(pool.len());
            universe.push(pool.remove(i).to_string());
        }
    } else {
        let n = 2 + g.rng.usize_below(5);
        let mut pool: Vec<&str> = NAME_POOL.to_vec();
        // "a/B" and "A/b" fold to the same name: never both (A2).
        for _ in 0..n {
            let i = g.rng.usize_below(pool.len());
            let name = pool.remove(i);
            if universe.iter().any(|u| u.eq_ignore_ascii_case(name)) {
                continue;
            }
            // A name must not be a directory prefix of another one.
            if universe.iter().any(|u| {
                u.starts_with(&format!("{name}/"))
                    || name.starts_with(&format!("{u}/"))
            }) {
                continue;
            }
            universe.push(name.to_string());
        }
        if backend == Backend::ZoneInfo && g.rng.chance(1, 4) {
            let long = long_names();
            let k = 1 + g.rng.usize_below(3);
            for name in long.iter().take(k) {
                universe.push(name.clone());
            }
        }
        if backend == Backend::ZoneInfo
            && universe.len() >= 2
            && g.rng.chance(3, 10)
        {
            universe.push("Alias".to_string());
            let target = g.rng.usize_below(universe.len() - 1);
            alias = Some((universe.len() - 1, target));
        }
    }
    let real_names: Vec<usize> = (0..universe.len())
        .filter(|&i| alias.map_or(true, |a| a.0 != i))
        .collect();

    // Initial files.
    let mut initial = vec![];
    if backend != Backend::Bundled {
        for &i in &real_names {
            if g.rng.chance(17, 20) {
                let c = g.content(true);
                let mtime_none = g.rng.chance(1, 12);
                initial.push((i, c, mtime_none));
            }
        }
        if initial.is_empty() {
            let c = g.content(false);
            initial.push((real_names[0], c, false));
        }
    }

    let mono = g.rng.chance(19, 20);

    // Swarm: which fault kinds are enabled in this run.
    let mut enabled: Vec<usize> = (0..FAULT_KINDS.len())
        .filter(|_| g.rng.chance(1, 2))
        .collect();
    if enabled.is_empty() {
        enabled.push(g.rng.usize_below(FAULT_KINDS.len()));
    }

    let callers = 1 + g.rng.usize_below(4);
    let mutators = if fault_free {
        0
    } else {
        1 + g.rng.usize_below(2)
    };

    // Caller programs.
    let mut threads: Vec<Vec<Op>> = vec![];
    let mut hot: Vec<usize> = vec![];
    // Some runs concentrate on one or two names so that threads collide.
    let focus: Vec<usize> = if g.rng.chance(1, 2) {
        let a = g.rng.usize_below(universe.len());
        let b = g.rng.usize_below(universe.len());
        vec![a, b]
    } else {
        (0..universe.len()).collect()
    };
    // Weights: Get known, Get hostile, Advance, Available, Reset, CloneDb,
    // Reopen.
    let w_reset = if g.rng.chance(1, 2) { 7 } else { 0 };
    let w_reopen = if g.rng.chance(1, 2) { 5 } else { 0 };
    for _ in 0..callers {
        let len = 1 + g.rng.usize_below(max_ops);
        let mut ops = vec![];
        for _ in 0..len {
            let op = match g.rng.weighted(&[50, 5, 20, 8, w_reset, 4, w_reopen]) {
                0 => {
                    let i = *g.rng.pick(&focus);
                    hot.push(i);
                    let name = universe[i].clone();
                    Op::Get { q: g.random_case(&name) }
                }
                1 => {
                    let q = if g.rng.chance(1, 4) {
                        // Near misses of real names.
                        let i = g.rng.usize_below(universe.len());
                        match g.rng.below(3) {
                            0 => format!("{}x", universe[i]),
                            1 => universe[i][..universe[i].len() - 1].to_string(),
                            _ => format!("{}/", universe[i]),
                        }
                    } else {
                        g.rng.pick(HOSTILE).to_string()
                    };
                    Op::Get { q }
                }
                2 => Op::Advance { ns: g.advance() },
                3 => Op::Available,
                4 => Op::Reset,
                5 => Op::CloneDb,
                _ => Op::Reopen,
            };
            ops.push(op);
        }
        threads.push(ops);
    }
    if hot.is_empty() {
        hot.push(0);
    }

    // Mutator programs.
    for _ in 0..mutators {
        let len = 1 + g.rng.usize_below(max_ops.min(8));
        let mut ops = vec![];
        for _ in 0..len {
            if g.rng.chance(1, 6) {
                ops.push(Op::Advance { ns: g.advance() });
                continue;
            }
            let kind = FAULT_KINDS[*g.rng.pick(&enabled)];
            let target = |g: &mut Gen| -> usize {
                let i = if g.rng.chance(3, 5) {
                    *g.rng.pick(&hot)
                } else {
                    *g.rng.pick(&real_names)
                };
                // Faults act on real files; the alias follows its target.
                if alias.map_or(false, |a| a.0 == i) {
                    alias.unwrap().1
                } else {
                    i
                }
            };
            let f = match kind {
                "atomic_replace" => {
                    let name = target(&mut g);
                    let content = g.content(true);
                    Fault::Replace { name, content, mtime_none: false }
                }
                "inplace_rewrite" => {
                    let name = target(&mut g);
                    let content = g.content(backend == Backend::ZoneInfo);
                    let abandon = if g.rng.chance(1, 5) { 1 + g.rng.below(2) as u8 } else { 0 };
                    Fault::Rewrite { name, content, abandon }
                }
                "touch" => Fault::Touch { name: target(&mut g) },
                "remove" => Fault::Remove { name: target(&mut g) },
                "corrupt" => {
                    let name = target(&mut g);
                    let how = match g.rng.below(3) {
                        0 => CorruptHow::Flip {
                            pos: g.rng.below(4096) as u32,
                            bit: g.rng.below(8) as u8,
                        },
                        1 => CorruptHow::Truncate { len: g.rng.below(256) as u32 },
                        _ => CorruptHow::Magic,
                    };
                    Fault::Corrupt { name, how }
                }
                "unreadable" => {
                    let name = target(&mut g);
                    let how = match g.rng.below(3) {
                        0 => UnreadableHow::Directory,
                        1 => UnreadableHow::DanglingSymlink,
                        _ => UnreadableHow::SymlinkLoop,
                    };
                    Fault::Unreadable { name, how }
                }
                "retarget_alias" => {
                    if alias.is_some() {
                        Fault::Retarget { target: *g.rng.pick(&real_names) }
                    } else {
                        Fault::Touch { name: target(&mut g) }
                    }
                }
                "dir_swap" => {
                    let mut new = vec![];
                    for &i in &real_names {
                        if g.rng.chance(4, 5) {
                            new.push((i, g.content(true)));
                        }
                    }
                    if new.is_empty() {
                        new.push((real_names[0], g.content(false)));
                    }
                    Fault::DirSwap { new }
                }
                _ => Fault::MtimeNone { name: target(&mut g) },
            };
            ops.push(Op::Fault(f));
        }
        threads.push(ops);
    }

    let settle = match g.rng.weighted(&[25, 50, 25]) {
        0 => Settle::None,
        1 => Settle::TtlThenGetAll,
        _ => Settle::ResetThenGetAll,
    };

    // I/O errors: in a third of the fault-injecting runs, at a random subset
    // of sites ("buggify" style), rarely enough that most operations succeed.
    let io = if !fault_free && g.rng.chance(1, 3) {
        let mut sites: Vec<String> = IO_SITES
            .iter()
            .filter(|_| g.rng.chance(1, 2))
            .map(|s| s.to_string())
            .collect();
        if sites.is_empty() {
            sites.push(g.rng.pick(IO_SITES).to_string());
        }
        IoFaults { seed: g.rng.next_u64(), rate: *g.rng.pick(&[1u8, 2, 4]), sites }
    } else {
        IoFaults::default()
    };

    let decoys = if backend == Backend::ZoneInfo && g.rng.chance(1, 2) {
        g.rng.below(16) as u32
    } else {
        0
    };

    let writer_pref = g.rng.chance(1, 2);

    Case { backend, universe, initial, alias, mono, threads, settle, fault_free, io, decoys, writer_pref }
}
