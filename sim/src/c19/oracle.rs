//! The C19 oracle: checks a recorded history against the recorded disk
//! states (DESIGN.md 3.4). Pure function of the `RunState` + event log.

use std::collections::HashMap;

use jiff::{tz::TimeZone, Timestamp};

use crate::c19::case::*;
use crate::c19::exec::{OpKind, OpRec, Res, RunState};
use crate::disk::{listable_bytes, Backend, ContentId, Snapshot, View};
use crate::sim::{Abort, Ev, What};

#[derive(Clone, Debug)]
pub struct Violation {
    pub clause: &'static str,
    pub op: Option<u32>,
    pub detail: String,
}

#[derive(Clone)]
enum Exp {
    Missing,
    Invalid,
    Zone(TimeZone),
}

const PROBES: [i64; 4] = [-2_000_000_000, 900_000_000, 1_700_000_000, 4_000_000_000];

fn same_zone(a: &TimeZone, b: &TimeZone) -> bool {
    if a != b || b != a {
        return false;
    }
    if a.iana_name() != b.iana_name() {
        return false;
    }
    for &s in &PROBES {
        let ts = Timestamp::from_second(s).unwrap();
        let (x, y) = (a.to_offset_info(ts), b.to_offset_info(ts));
        if x.offset() != y.offset()
            || x.dst() != y.dst()
            || x.abbreviation() != y.abbreviation()
        {
            return false;
        }
    }
    true
}

pub struct Oracle<'a> {
    run: &'a RunState,
    events: &'a [Ev],
    /// (event seq, site, op) of every injected I/O error.
    io_fired: &'a [(u32, &'static str, u32)],
    exp: HashMap<(ContentId, usize), Exp>,
    bundled: HashMap<String, Exp>,
    pub stats: OracleStats,
}

#[derive(Clone, Debug, Default)]
pub struct OracleStats {
    pub gets_ok: u64,
    pub gets_err: u64,
    pub gets_ok_by_earlier_witness: u64,
    pub gets_err_by_earlier_witness: u64,
    pub availables: u64,
    pub availables_relaxed: u64,
    pub opens_failed: u64,
    pub reuse_checked: u64,
    pub hostile_checked: u64,
    pub settle_gets: u64,
    pub errs_justified_by_io_fault: u64,
}

impl<'a> Oracle<'a> {
    pub fn new(
        run: &'a RunState,
        events: &'a [Ev],
        io_fired: &'a [(u32, &'static str, u32)],
    ) -> Oracle<'a> {
        Oracle {
            run,
            events,
            io_fired,
            exp: HashMap::new(),
            bundled: HashMap::new(),
            stats: OracleStats::default(),
        }
    }

    fn case(&self) -> &'a Case {
        &self.run.case
    }

    fn expected_view(&mut self, view: &View, name: usize) -> Exp {
        match *view {
            View::Absent | View::Unreadable => Exp::Missing,
            View::Bytes { content, .. } => {
                if let Some(e) = self.exp.get(&(content, name)) {
                    return e.clone();
                }
                let bytes = self.run.disk.content(content);
                let e = if self.case().backend == Backend::ZoneInfo
                    && !listable_bytes(bytes)
                {
                    Exp::Missing
                } else {
                    match TimeZone::tzif(&self.case().universe[name], bytes) {
                        Ok(tz) => Exp::Zone(tz),
                        Err(_) => Exp::Invalid,
                    }
                };
                self.exp.insert((content, name), e.clone());
                e
            }
        }
    }

    fn listable(&self, view: &View) -> bool {
        match *view {
            View::Absent | View::Unreadable => {
                // A concatenated index lists a name even if its blob is out
                // of bounds.
                self.case().backend == Backend::Concatenated
                    && *view == View::Unreadable
            }
            View::Bytes { content, .. } => {
                self.case().backend == Backend::Concatenated
                    || listable_bytes(self.run.disk.content(content))
            }
        }
    }

    fn bundled_expected(&mut self, q: &str) -> Exp {
        if let Some(e) = self.bundled.get(q) {
            return e.clone();
        }
        // "Etc/Unknown" is special-cased by exact spelling only; every
        // other query is answered from the bundled data, ignoring case.
        let e = if q == "Etc/Unknown" {
            Exp::Zone(TimeZone::unknown())
        } else {
            match jiff_tzdb::get(q) {
                None => Exp::Missing,
                Some((canonical, bytes)) => match TimeZone::tzif(canonical, bytes) {
                    Ok(tz) => Exp::Zone(tz),
                    Err(_) => Exp::Invalid,
                },
            }
        };
        self.bundled.insert(q.to_string(), e.clone());
        e
    }

    /// Did an injected I/O error hit operation `op` (at any site)?
    fn io_fault_in(&self, op: u32) -> bool {
        self.io_fired.iter().any(|f| f.2 == op)
    }

    /// Did an injected I/O error hit the name listing (directory walk /
    /// index read) performed by operation `op`?
    fn io_fault_in_listing(&self, op: u32) -> bool {
        self.io_fired.iter().any(|f| {
            f.2 == op
                && matches!(
                    f.1,
                    "zi.walk.read_dir" | "zi.walk.open" | "cc.names.open" | "cc.read_at"
                )
        })
    }

    /// Event number at which the last `reset()` on `l`'s cache that
    /// completed before `l` was invoked *began* (0: none).
    fn reset_bound(&self, l: &OpRec) -> u32 {
        let mut b = 0;
        for o in self.run.ops.iter() {
            if o.cache == l.cache && matches!(o.kind, OpKind::Reset) {
                if let Some(ret) = o.ret {
                    if ret < l.inv {
                        b = b.max(o.inv);
                    }
                }
            }
        }
        b
    }

    /// The part of witness `p`'s interval whose reads `l` may still observe:
    /// from the later of `p`'s start and the start of the last completed
    /// reset (see `witnesses_lo`), to the earlier of the two ends. May be
    /// empty (`lo > hi`).
    fn window(&self, p: &OpRec, l: &OpRec) -> (u32, u32) {
        let hi = p.ret.unwrap_or(u32::MAX).min(l.ret.unwrap_or(u32::MAX));
        (p.inv.max(self.reset_bound(l)), hi)
    }

    fn snaps(&self, lo: u32, hi: u32) -> &'a [Snapshot] {
        if lo > hi {
            return &[];
        }
        self.run.disk.overlapping(lo, hi)
    }

    /// Concatenated back-end: every content the image file(s) the path
    /// denoted in `[lo, hi]` had at some moment in `[lo, hi]` (including
    /// content written through an open handle after the file was unlinked),
    /// and whether the path denoted no file at some moment.
    fn cc_images(&self, lo: u32, hi: u32) -> (Vec<ContentId>, bool) {
        let mut inodes: Vec<u64> = vec![];
        let mut any_absent = false;
        for s in self.snaps(lo, hi) {
            if s.image_ino == 0 {
                any_absent = true;
            } else if !inodes.contains(&s.image_ino) {
                inodes.push(s.image_ino);
            }
        }
        let mut images = vec![];
        for ino in inodes {
            for c in self.run.disk.inode_contents(ino, lo, hi) {
                if !images.contains(&c) {
                    images.push(c);
                }
            }
        }
        (images, any_absent)
    }

    /// Everything a reader of name `n` may see if its reads fall anywhere
    /// in `[lo, hi]`: the states of the name itself; for the symlink alias
    /// the states of every file the link pointed at in that window; and,
    /// because a reader keeps the file it opened even when the path is
    /// renamed over, unlinked or retargeted afterwards, every content any
    /// of those *files* (inodes) had in the window.
    fn candidates(&mut self, n: usize, lo: u32, hi: u32) -> Vec<Exp> {
        let snaps = self.snaps(lo, hi);
        let mut views: Vec<View> = vec![];
        let mut names = vec![n];
        if self.case().alias.map(|a| a.0) == Some(n) {
            for s in snaps {
                if let Some(t) = s.alias_target {
                    if !names.contains(&t) {
                        names.push(t);
                    }
                }
            }
        }
        for &m in &names {
            for s in snaps {
                if !views.contains(&s.views[m]) {
                    views.push(s.views[m].clone());
                }
            }
        }
        let mut out: Vec<Exp> = vec![];
        let backend = self.case().backend;
        if backend == Backend::Concatenated {
            // jiff reads header, index and data with separate positional
            // reads; while the image is modified in place they may see
            // different states of the same file. Candidates: the location
            // given by any index the file had in the window, applied to the
            // bytes the file had at any moment in the window.
            let (images, any_absent) = self.cc_images(lo, hi);
            if any_absent {
                out.push(Exp::Missing);
            }
            let uname = self.case().universe[n].clone();
            {
                for &ci in &images {
                    let idx_img = self.run.disk.content(ci);
                    match crate::zonegen::android_locate(idx_img, &uname) {
                        Err(()) | Ok(None) => out.push(Exp::Missing),
                        Ok(Some((off, len))) => {
                            for &cd in &images {
                                let data_img = self.run.disk.content(cd);
                                let e = match off
                                    .checked_add(len)
                                    .and_then(|end| data_img.get(off..end))
                                {
                                    None => Exp::Missing,
                                    Some(blob) => match TimeZone::tzif(&uname, blob) {
                                        Ok(tz) => Exp::Zone(tz),
                                        Err(_) => Exp::Invalid,
                                    },
                                };
                                out.push(e);
                            }
                        }
                    }
                }
            }
            return out;
        }
        let mut inodes: Vec<u64> = vec![];
        for v in &views {
            out.push(self.expected_view(v, n));
            if let View::Bytes { ino, .. } = *v {
                if ino != 0 && !inodes.contains(&ino) {
                    inodes.push(ino);
                }
            }
        }
        for ino in inodes {
            for content in self.run.disk.inode_contents(ino, lo, hi) {
                let v = View::Bytes { content, mtime: None, ino };
                out.push(self.expected_view(&v, n));
            }
        }
        out
    }

    /// Operations on `l`'s cache whose effects `l` may legitimately still
    /// observe (DESIGN.md 3.4, "witness").
    fn witnesses(&self, l: &OpRec) -> Vec<&'a OpRec> {
        self.witnesses_lo(l).into_iter().map(|w| w.0).collect()
    }

    /// Witnesses together with the event number from which their reads
    /// count: an operation that overlaps the last completed `reset()` can
    /// only have kept what it read *after that reset began* (whatever it had
    /// cached before was wiped; a correct implementation reads and installs
    /// under one lock, so it cannot install older data afterwards).
    fn witnesses_lo(&self, l: &OpRec) -> Vec<(&'a OpRec, u32)> {
        let ops = &self.run.ops;
        if !self.case().mono {
            // No monotonic clock: every cached entry is always expired.
            return vec![(&ops[l.id as usize], l.inv)];
        }
        // Last reset on this cache that returned before `l` was invoked.
        let mut reset_inv: Option<u32> = None;
        for o in ops.iter() {
            if o.cache == l.cache && matches!(o.kind, OpKind::Reset) {
                if let Some(ret) = o.ret {
                    if ret < l.inv {
                        reset_inv = Some(reset_inv.map_or(o.inv, |r| r.max(o.inv)));
                    }
                }
            }
        }
        let l_ret = l.ret.unwrap_or(u32::MAX);
        // The time-to-live jiff's caches were measured to use (calib.rs).
        let ttl = crate::c19::calib::ttl_ns(self.case().backend);
        ops.iter()
            .filter(|p| p.cache == l.cache)
            .filter(|p| {
                matches!(
                    p.kind,
                    OpKind::Open | OpKind::Get { .. } | OpKind::Available
                )
            })
            .filter(|p| p.inv <= l_ret)
            .filter(|p| match reset_inv {
                None => true,
                Some(r) => p.ret.unwrap_or(u32::MAX) >= r,
            })
            .filter(|p| {
                p.id == l.id
                    || l.clk_inv <= p.clk_ret.saturating_add(ttl)
            })
            .map(|p| (p, p.inv.max(reset_inv.unwrap_or(0))))
            .collect()
    }

    pub fn check(&mut self, abort: &Option<Abort>, abort_site: Option<&'static str>) -> Vec<Violation> {
        let mut out = vec![];
        // Clause 6: no panic, no deadlock, bounded steps.
        if let Some(a) = abort {
            let clause = match a {
                Abort::Deadlock => "deadlock",
                Abort::StepBound => "step_bound",
                Abort::Stuck => "harness_stuck",
            };
            let pending: Vec<String> = self
                .run
                .ops
                .iter()
                .filter(|o| o.ret.is_none())
                .map(|o| format!("thread {} {:?}", o.thread, o.kind))
                .collect();
            out.push(Violation {
                clause,
                op: None,
                detail: format!(
                    "operations that never returned: {pending:?}; last blocked site: {abort_site:?}"
                ),
            });
            return out;
        }
        for o in self.run.ops.iter() {
            if let Res::Panic(ref msg) = o.res {
                out.push(Violation {
                    clause: "panic",
                    op: Some(o.id),
                    detail: format!("{:?} panicked: {msg}", o.kind),
                });
            }
        }
        if !out.is_empty() {
            return out;
        }
        let ops: &'a [OpRec] = &self.run.ops;
        for l in ops.iter() {
            match l.kind {
                OpKind::Get { ref q, name } => {
                    if let Some(v) = self.check_get(l, q, name) {
                        out.push(v);
                    }
                }
                OpKind::Available => {
                    out.extend(self.check_available(l));
                }
                OpKind::Open => {
                    if let Some(v) = self.check_open(l) {
                        out.push(v);
                    }
                }
                _ => {}
            }
        }
        out.extend(self.check_reuse());
        out
    }

    fn check_get(&mut self, l: &'a OpRec, q: &str, name: Option<usize>) -> Option<Violation> {
        let backend = self.case().backend;
        let is_settle = l.thread == 0;
        if is_settle {
            self.stats.settle_gets += 1;
        }
        // Names answered without consulting the database.
        if backend != Backend::Bundled && (q == "UTC" || q == "Etc/Unknown") {
            return None;
        }
        if backend == Backend::Bundled {
            let exp = self.bundled_expected(q);
            return match (&l.res, exp) {
                (Res::Zone(z), Exp::Zone(e)) if same_zone(z, &e) => {
                    self.stats.gets_ok += 1;
                    None
                }
                (Res::Err(_), Exp::Missing) => {
                    self.stats.gets_err += 1;
                    None
                }
                (res, _) => Some(Violation {
                    clause: "bundled_answer",
                    op: Some(l.id),
                    detail: format!("get({q:?}) returned {}", res_summary(res)),
                }),
            };
        }
        let Some(n) = name else {
            // No file of that name (under case folding) can exist.
            self.stats.hostile_checked += 1;
            if let Res::Zone(ref z) = l.res {
                return Some(Violation {
                    clause: "invented",
                    op: Some(l.id),
                    detail: format!(
                        "get({q:?}) returned zone {:?} but no such name can exist on disk",
                        z.iana_name()
                    ),
                });
            }
            // Clause 5: a name that is not in the index never reaches the
            // file system as a path (zoneinfo).
            if backend == Backend::ZoneInfo {
                for e in self.events.iter().filter(|e| e.op == l.id) {
                    if let What::Site(s) = e.what {
                        if s == "zi.new.open" || s == "zi.revalidate.stat" {
                            return Some(Violation {
                                clause: "hostile_open",
                                op: Some(l.id),
                                detail: format!("get({q:?}) reached {s}"),
                            });
                        }
                    }
                }
            }
            return None;
        };
        let canonical = self.case().universe[n].clone();
        let wit = self.witnesses_lo(l);
        match l.res {
            Res::Zone(ref z) => {
                self.stats.gets_ok += 1;
                // Clause 2: canonical identity.
                if z.iana_name() != Some(&canonical) {
                    return Some(Violation {
                        clause: "identity",
                        op: Some(l.id),
                        detail: format!(
                            "get({q:?}) returned a zone named {:?}, on-disk spelling is {canonical:?}",
                            z.iana_name()
                        ),
                    });
                }
                // Clause 1: freshness / no invented data.
                let mut by_self = false;
                let mut by_other = false;
                for &(p, plo) in wit.iter() {
                    let same_name = matches!(p.kind, OpKind::Get { name: Some(m), .. } if m == n);
                    if !same_name {
                        continue;
                    }
                    let (lo, hi) = self.window(p, l);
                    let _ = plo;
                    if lo > hi {
                        continue;
                    }
                    for e in self.candidates(n, lo, hi) {
                        if let Exp::Zone(e) = e {
                            if same_zone(z, &e) {
                                if p.id == l.id {
                                    by_self = true;
                                } else {
                                    by_other = true;
                                }
                            }
                        }
                    }
                    if by_self {
                        break;
                    }
                }
                if by_self {
                    None
                } else if by_other {
                    self.stats.gets_ok_by_earlier_witness += 1;
                    None
                } else {
                    Some(Violation {
                        clause: "freshness",
                        op: Some(l.id),
                        detail: format!(
                            "get({q:?}) at clock {} returned {}; those bytes were not on disk during any lookup of that name that ended within one TTL before this one began (on disk during this lookup: {})",
                            l.clk_inv,
                            zone_summary(z),
                            self.describe_states(l.inv, l.ret.unwrap_or(u32::MAX), n),
                        ),
                    })
                }
            }
            Res::Err(_) => {
                self.stats.gets_err += 1;
                // (a) the data was missing or invalid during this lookup.
                let (lo, hi) = self.window(l, l);
                for e in self.candidates(n, lo, hi) {
                    match e {
                        Exp::Missing | Exp::Invalid => return None,
                        Exp::Zone(_) => {}
                    }
                }
                // (a') one of this lookup's own file system calls failed with
                // an injected error: it may fail, never return wrong data.
                if self.io_fault_in(l.id) {
                    self.stats.errs_justified_by_io_fault += 1;
                    return None;
                }
                // (b') zoneinfo: an injected error made the directory walk of
                // an operation that is still within its TTL skip entries.
                if backend == Backend::ZoneInfo
                    && wit.iter().any(|w| self.io_fault_in_listing(w.0.id))
                {
                    self.stats.errs_justified_by_io_fault += 1;
                    return None;
                }
                // (b) zoneinfo only: the name index was (re)built by an
                // earlier operation that is still within its TTL, at a
                // moment the name was not listable.
                if backend == Backend::ZoneInfo {
                    for &(p, plo) in wit.iter().filter(|w| w.0.id != l.id) {
                        let (lo, hi) = self.window(p, l);
                        let _ = plo;
                        if lo > hi {
                            continue;
                        }
                        for s in self.snaps(lo, hi) {
                            if !self.listable(&s.views[n]) {
                                self.stats.gets_err_by_earlier_witness += 1;
                                return None;
                            }
                        }
                    }
                }
                Some(Violation {
                    clause: "false_negative",
                    op: Some(l.id),
                    detail: format!(
                        "get({q:?}) at clock {} failed although a valid zone was on disk during the whole lookup and during every operation that could still be cached ({})",
                        l.clk_inv,
                        self.describe_states(l.inv, l.ret.unwrap_or(u32::MAX), n),
                    ),
                })
            }
            _ => None,
        }
    }

    fn check_available(&mut self, l: &'a OpRec) -> Vec<Violation> {
        let mut out = vec![];
        let Res::Names(ref names) = l.res else { return out };
        self.stats.availables += 1;
        let backend = self.case().backend;
        if backend == Backend::Bundled {
            let all: Vec<&str> = jiff_tzdb::available().collect();
            if names.len() != all.len()
                || names.iter().zip(all.iter()).any(|(a, b)| a != b)
            {
                out.push(Violation {
                    clause: "completeness",
                    op: Some(l.id),
                    detail: "bundled available() differs from jiff_tzdb::available()".into(),
                });
            }
            return out;
        }
        if backend == Backend::Concatenated {
            // The list is replaced wholesale by a successful refresh and
            // kept by a failed one. jiff reads the header and the index
            // block separately, so a refresh during an in-place change may
            // combine two states of the file.
            let mut wit = self.witnesses(l);
            wit.retain(|p| matches!(p.kind, OpKind::Open | OpKind::Available));
            let mut may_fail = false;
            let mut matched = false;
            for p in wit.iter() {
                may_fail |= self.io_fault_in_listing(p.id);
                let (lo, hi) = self.window(p, l);
                if lo > hi {
                    continue;
                }
                let (images, any_absent) = self.cc_images(lo, hi);
                may_fail |= any_absent;
                for &h in &images {
                    for &i in &images {
                        match crate::zonegen::android_names(
                            self.run.disk.content(h),
                            self.run.disk.content(i),
                        ) {
                            None => may_fail = true,
                            Some(list) => matched |= &list == names,
                        }
                    }
                }
            }
            if matched {
                return out;
            }
            if may_fail {
                self.stats.availables_relaxed += 1;
                return out;
            }
            out.push(Violation {
                clause: "completeness",
                op: Some(l.id),
                detail: format!(
                    "available() at clock {} returned {names:?}, which is not the index of the image at any moment during an operation that could still be cached",
                    l.clk_inv
                ),
            });
            return out;
        }
        let universe = &self.case().universe;
        // Nothing outside the universe can be listed, and nothing twice.
        let mut wit = self.witnesses(l);
        if backend == Backend::Concatenated {
            // Only opening the database and `available()` refresh the list.
            wit.retain(|p| matches!(p.kind, OpKind::Open | OpKind::Available));
        }
        for (i, nm) in names.iter().enumerate() {
            // A torn or corrupted container index can hold other names; they
            // are legitimate if the index on disk really had them.
            let in_index = wit.iter().any(|p| {
                let (lo, hi) = self.window(p, l);
                self.snaps(lo, hi).iter().any(|s| s.extra_names.contains(nm))
            });
            if !universe.iter().any(|u| u == nm) && !in_index {
                out.push(Violation {
                    clause: "completeness",
                    op: Some(l.id),
                    detail: format!("available() lists {nm:?}, which never existed"),
                });
            }
            if names[..i].contains(nm) && universe.iter().any(|u| u == nm) {
                out.push(Violation {
                    clause: "completeness",
                    op: Some(l.id),
                    detail: format!("available() lists {nm:?} twice"),
                });
            }
        }
        // A refresh that finds nothing keeps the previous list (documented
        // in `refresh`). If that may have happened in a witness, only the
        // checks above apply.
        if wit.iter().any(|p| self.io_fault_in_listing(p.id)) {
            // An injected error made some walk skip entries.
            self.stats.availables_relaxed += 1;
            return out;
        }
        for p in wit.iter() {
            let (lo, hi) = self.window(p, l);
            if lo > hi {
                continue;
            }
            let snaps = self.snaps(lo, hi);
            let may_have_failed = match backend {
                Backend::Concatenated => snaps.iter().any(|s| {
                    !s.container_ok
                        || s.views.iter().all(|v| *v == View::Absent)
                }),
                _ => (0..universe.len()).all(|n| {
                    snaps.iter().any(|s| !self.listable(&s.views[n]))
                }),
            };
            if may_have_failed {
                self.stats.availables_relaxed += 1;
                return out;
            }
        }
        for n in 0..universe.len() {
            let listed = names.iter().any(|nm| nm == &universe[n]);
            let mut justified = false;
            'w: for p in wit.iter() {
                let (lo, hi) = self.window(p, l);
                for s in self.snaps(lo, hi) {
                    if self.listable(&s.views[n]) == listed {
                        justified = true;
                        break 'w;
                    }
                }
            }
            if !justified {
                out.push(Violation {
                    clause: "completeness",
                    op: Some(l.id),
                    detail: format!(
                        "available() at clock {} {} {:?}, which was {} during every operation that could still be cached",
                        l.clk_inv,
                        if listed { "lists" } else { "omits" },
                        universe[n],
                        if listed { "absent" } else { "present" },
                    ),
                });
            }
        }
        out
    }

    fn check_open(&mut self, l: &'a OpRec) -> Option<Violation> {
        let Res::OpenErr(ref e) = l.res else { return None };
        self.stats.opens_failed += 1;
        if self.io_fault_in(l.id) {
            self.stats.errs_justified_by_io_fault += 1;
            return None;
        }
        let backend = self.case().backend;
        let (lo, hi) = self.window(l, l);
        let snaps = self.snaps(lo, hi);
        let justified = match backend {
            Backend::Bundled => false,
            Backend::Concatenated => {
                let (images, any_absent) = self.cc_images(lo, hi);
                any_absent
                    || images.iter().any(|&h| {
                        images.iter().any(|&i| {
                            crate::zonegen::android_names(
                                self.run.disk.content(h),
                                self.run.disk.content(i),
                            )
                            .is_none()
                        })
                    })
            }
            Backend::ZoneInfo => (0..self.case().universe.len())
                .all(|n| snaps.iter().any(|s| !self.listable(&s.views[n]))),
        };
        if justified {
            None
        } else {
            Some(Violation {
                clause: "open_failed",
                op: Some(l.id),
                detail: format!("opening the database failed ({e}) although it was readable throughout"),
            })
        }
    }

    /// Clause 4: an unchanged file is *reused*. In a fault-free run (the
    /// disk never changes) every lookup of a name through one cache hands out
    /// the same zone object, except that each `reset()` may bring a new one.
    /// Judged by what the caller can observe -- the identity of the zone the
    /// returned handle points to -- not by which file system calls jiff makes
    /// (re-opening or re-stat-ing an unchanged file is fine; building a new
    /// zone from it is not).
    fn check_reuse(&mut self) -> Vec<Violation> {
        let mut out = vec![];
        let case = self.case();
        if !case.fault_free || case.backend == Backend::Bundled || !self.run.track_blocks {
            return out;
        }
        let snap0 = &self.run.disk.snaps[0];
        let mut objects: HashMap<(u32, usize), Vec<(usize, u64)>> = HashMap::new();
        for o in self.run.ops.iter() {
            if let (OpKind::Get { name: Some(n), .. }, Some(block)) = (&o.kind, o.zone_block) {
                let v = objects.entry((o.cache, *n)).or_default();
                if !v.contains(&block) {
                    v.push(block);
                }
            }
        }
        for (&(cache, n), blocks) in objects.iter() {
            // Only files whose mtime jiff can represent are revalidated.
            let View::Bytes { mtime: Some(_), .. } = snap0.views[n] else {
                continue;
            };
            let v0 = snap0.views[n].clone();
            if !matches!(self.expected_view(&v0, n), Exp::Zone(_)) {
                continue;
            }
            let resets = self
                .run
                .ops
                .iter()
                .filter(|o| o.cache == cache && matches!(o.kind, OpKind::Reset))
                .count();
            self.stats.reuse_checked += 1;
            if blocks.len() > 1 + resets {
                out.push(Violation {
                    clause: "reuse",
                    op: None,
                    detail: format!(
                        "unchanged file {:?}: lookups through one cache handed out {} different zone objects with {resets} reset(s)",
                        case.universe[n],
                        blocks.len()
                    ),
                });
            }
        }
        out
    }

    fn describe_states(&mut self, lo: u32, hi: u32, n: usize) -> String {
        let mut parts = vec![];
        for s in self.snaps(lo, hi) {
            let d = match self.expected_view(&s.views[n], n) {
                Exp::Missing => "missing".to_string(),
                Exp::Invalid => "invalid".to_string(),
                Exp::Zone(z) => zone_summary(&z),
            };
            parts.push(format!("@{}:{}", s.begin, d));
        }
        parts.join(", ")
    }
}

pub fn zone_summary(z: &TimeZone) -> String {
    let ts = Timestamp::from_second(1_700_000_000).unwrap();
    let info = z.to_offset_info(ts);
    format!(
        "{}[{} {}]",
        z.iana_name().unwrap_or("?"),
        info.offset(),
        info.abbreviation()
    )
}

pub fn res_summary(r: &Res) -> String {
    match r {
        Res::Pending => "pending".into(),
        Res::Unit => "()".into(),
        Res::Zone(z) => format!("Ok({})", zone_summary(z)),
        Res::Err(e) => format!("Err({e})"),
        Res::Names(n) => format!("{n:?}"),
        Res::OpenOk => "opened".into(),
        Res::OpenErr(e) => format!("open failed: {e}"),
        Res::Panic(m) => format!("panic: {m}"),
    }
}
