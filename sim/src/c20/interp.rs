//! The C20 operation interpreter: applies one `Op` to a thread's slots by
//! calling jiff, and reports to an `Env` everything the oracles need (handle
//! counts per zone instance, answers, equality results). Shared by the native
//! simulator (memory model via the counting allocator) and the Miri tier
//! (Miri itself is the memory oracle).

use jiff::{
    civil::DateTime,
    tz::{AmbiguousZoned, Disambiguation, Offset, OffsetConflict, TimeZone},
    RoundMode, SignedDuration, SpanRound, Timestamp, ToSpan, Unit, Zoned, ZonedRound,
};

use crate::c20::prog::*;
use crate::zonegen;

static S0: TimeZone = jiff::tz::get!("America/New_York");
static S1: TimeZone = jiff::tz::get!("Europe/Dublin");
static S2: TimeZone = jiff::tz::get!("Asia/Kolkata");

pub const INSTANTS: [i64; N_INSTANTS as usize] = [
    -2_000_000_000,
    0,
    900_000_000,
    1_700_000_000,
    1_710_054_000, // 2024-03-10T07:00Z: the moment of a US DST change
    1_730_613_600, // 2024-11-03T06:00Z
    4_000_000_000,
    253_402_207_200, // near the maximum
    1_709_883_000,   // 2024-03-08T07:30Z = 02:30 EST (wall time that is in a gap two days later)
    1_710_054_600,   // 2024-03-10T07:10Z = 03:10 EDT, just after the US gap
    1_730_611_800,   // 2024-11-03T05:30Z = 01:30 EDT, inside the US fold
    1_711_848_600,   // 2024-03-31T01:30Z, just after the EU gap
    -377_705_023_201, // Timestamp::MIN: APIs that need the start of the day fail here
    253_402_207_200 + 93_599, // Timestamp::MAX
];

pub fn instant(t: u8) -> Timestamp {
    let s = INSTANTS[t as usize % INSTANTS.len()];
    Timestamp::from_second(s)
        .unwrap_or(if s < 0 { Timestamp::MIN } else { Timestamp::MAX })
}

pub fn datetime(i: u8) -> DateTime {
    match i % N_DATETIMES {
        0 => DateTime::constant(2024, 3, 10, 2, 30, 0, 0),
        1 => DateTime::constant(2024, 11, 3, 1, 30, 0, 0),
        2 => DateTime::constant(2024, 6, 1, 12, 0, 0, 0),
        3 => DateTime::constant(1970, 1, 1, 0, 0, 0, 0),
        4 => DateTime::constant(2024, 3, 31, 1, 30, 0, 0),
        // The upper limit of the civil range: zones west of UTC cannot map
        // it to an instant, so conversions take their error paths here.
        // (`DateTime::MIN` is deliberately absent: on the unchanged tree
        // `to_ambiguous_timestamp(DateTime::MIN)` panics for TZif zones whose
        // first offset is negative -- "impossible to come before
        // DateTime::MIN", src/tz/tzif.rs:327 -- a defect of the civil lookup
        // itself, not of handles; see DESIGN.md 9.6.)
        _ => DateTime::MAX,
    }
}

/// Creates a brand new handle for `spec`.
pub fn make_tz(spec: &Spec) -> TimeZone {
    match *spec {
        Spec::Utc => TimeZone::UTC,
        Spec::Unknown => TimeZone::unknown(),
        Spec::Fixed(s) => TimeZone::fixed(Offset::from_seconds(s).unwrap()),
        Spec::Posix(i) => TimeZone::posix(POSIX[i as usize % POSIX.len()]).unwrap(),
        Spec::TzifReal(i) => {
            let (name, bytes) = zonegen::REAL_TZIF[i as usize % zonegen::REAL_TZIF.len()];
            TimeZone::tzif(name, bytes).unwrap()
        }
        Spec::TzifSynth { k, tr } => {
            let bytes = zonegen::synth_tzif(k, tr);
            TimeZone::tzif(&format!("Synth/{k}-{tr}"), &bytes).unwrap()
        }
        Spec::TzifNamed { name, k } => {
            let bytes = zonegen::synth_tzif(k, false);
            TimeZone::tzif(&format!("Named/{}", name % 2), &bytes).unwrap()
        }
        Spec::TzifFooter(i) => {
            let i = i as usize % FOOTERS.len();
            let (rule, so, sa, d_o, da) = FOOTERS[i];
            let bytes = zonegen::synth_tzif_footer(rule, so, sa, d_o, da);
            TimeZone::tzif(&format!("Footer/{i}"), &bytes).unwrap()
        }
        // The harness points `TZ` at a TZif file before the first call (see
        // `system_zone_setup`); if that did not work out, an ordinary zone
        // stands in (all `System` handles are still the same zone).
        Spec::System => match TimeZone::try_system() {
            Ok(tz) if tz.iana_name().is_none() && !tz.is_unknown() => tz,
            _ => {
                let (rule, so, sa, d_o, da) = FOOTERS[0];
                let bytes = zonegen::synth_tzif_footer(rule, so, sa, d_o, da);
                TimeZone::tzif("Local/Standin", &bytes).unwrap()
            }
        },
        Spec::TzifBundled(i) => {
            let name = STATIC_NAMES[(i % N_STATIC) as usize];
            let (canonical, bytes) = jiff_tzdb::get(name).expect("bundled zone");
            TimeZone::tzif(canonical, bytes).unwrap()
        }
        // The reference handle for a database zone is built from the same
        // name and bytes the database reads.
        Spec::Db(i) => {
            let i = i as usize % DB_NAMES.len();
            TimeZone::tzif(DB_NAMES[i], &db_zone_bytes(i)).unwrap()
        }
        Spec::Static(i) => match i % (2 * N_STATIC) {
            0 => S0.clone(),
            1 => S1.clone(),
            2 => S2.clone(),
            3 => T0.clone(),
            4 => T1.clone(),
            _ => T2.clone(),
        },
    }
}

/// Contents of the database's zone files.
pub fn db_zone_bytes(i: usize) -> Vec<u8> {
    zonegen::synth_tzif(60_000 + i as u32, i % 2 == 1)
}

pub const STATIC_NAMES: [&str; N_STATIC as usize] =
    ["America/New_York", "Europe/Dublin", "Asia/Kolkata"];

static UTC_HANDLE: TimeZone = TimeZone::UTC;

pub enum Val {
    Tz(TimeZone),
    Zoned(Zoned),
    Amb(AmbiguousZoned),
    /// A value derived from a `Zoned` that owns no handle, with what it
    /// answered when it was made.
    Derived(Box<jiff::fmt::strtime::BrokenDownTime>, String),
}

/// What a derived value says about its zone.
pub fn derived_answer(b: &jiff::fmt::strtime::BrokenDownTime) -> String {
    let name = b.iana_time_zone().map(|s| s.as_bytes().to_vec());
    let text = b.to_string("%Q|%z").unwrap_or_else(|_| "<error>".to_string());
    // If the value reads freed memory these may not be UTF-8 at all: only
    // ever look at the bytes.
    let text = String::from_utf8_lossy(text.as_bytes()).into_owned();
    format!("{name:?}|{:?}|{text}", b.offset().map(|o| o.seconds()))
}

impl Val {
    /// The embedded handle. Only for values that embed one.
    pub fn tz(&self) -> &TimeZone {
        match self {
            Val::Tz(tz) => tz,
            Val::Zoned(z) => z.time_zone(),
            Val::Amb(a) => a.time_zone(),
            Val::Derived(..) => &UTC_HANDLE,
        }
    }
    pub fn has_handle(&self) -> bool {
        !matches!(self, Val::Derived(..))
    }
    pub fn kind(&self) -> &'static str {
        match self {
            Val::Tz(_) => "TimeZone",
            Val::Zoned(_) => "Zoned",
            Val::Amb(_) => "AmbiguousZoned",
            Val::Derived(..) => "BrokenDownTime",
        }
    }
    fn duplicate(&self) -> Val {
        match self {
            Val::Tz(tz) => Val::Tz(tz.clone()),
            Val::Zoned(z) => Val::Zoned(z.clone()),
            Val::Amb(a) => Val::Amb(a.clone()),
            // Not `Clone`; never duplicated (see `Op::Clone`).
            Val::Derived(..) => unreachable!("derived values are not cloned"),
        }
    }
}

pub struct Slot {
    pub val: Val,
    /// Zone instance this value's embedded handle refers to.
    pub zone: u32,
    pub spec: Spec,
}

/// What a query on a handle returns, as a string (compared with the same
/// query on a reference handle that is never cloned or dropped mid-run).
pub fn answer(tz: &TimeZone, q: u8, t: u8) -> String {
    let ts = instant(t);
    match q % N_QUERIES {
        0 => format!("{}", tz.to_offset(ts).seconds()),
        1 => {
            let info = tz.to_offset_info(ts);
            // The abbreviation may borrow from the zone's memory.
            format!("{}|{:?}|{}", info.offset().seconds(), info.dst(), info.abbreviation())
        }
        2 => format!("{:?}", tz.iana_name()),
        3 => match tz.to_fixed_offset() {
            Ok(o) => format!("Ok({})", o.seconds()),
            Err(_) => "Err".to_string(),
        },
        4 => {
            let dt = datetime(t);
            format!("{:?}", tz.to_ambiguous_timestamp(dt).offset())
        }
        // The items of the transition iterators borrow from the zone for as
        // long as the *handle* lives, not the iterator: keep them past it.
        5 => match { let first = tz.following(ts).next(); first } {
            None => "None".to_string(),
            Some(tr) => format!(
                "{}|{}|{}|{:?}",
                tr.timestamp().as_second(),
                tr.offset().seconds(),
                tr.abbreviation(),
                tr.dst()
            ),
        },
        6 => match { let first = tz.preceding(ts).next(); first } {
            None => "None".to_string(),
            Some(tr) => format!(
                "{}|{}|{}|{:?}",
                tr.timestamp().as_second(),
                tr.offset().seconds(),
                tr.abbreviation(),
                tr.dst()
            ),
        },
        7 => format!("{tz:?}"),
        8 => format!("{}", tz.to_datetime(ts)),
        9 => format!("{}", tz.is_unknown()),
        10 => match tz.to_timestamp(datetime(t)) {
            Ok(ts) => format!("Ok({})", ts.as_second()),
            Err(_) => "Err".to_string(),
        },
        11 => {
            let items: Vec<_> = tz.following(ts).take(3).collect();
            items
                .iter()
                .map(|tr| format!("{}/{}/{}", tr.timestamp().as_second(), tr.offset().seconds(), tr.abbreviation()))
                .collect::<Vec<_>>()
                .join(",")
        }
        _ => {
            let items: Vec<_> = tz.preceding(ts).take(3).collect();
            items
                .iter()
                .map(|tr| format!("{}/{}/{}", tr.timestamp().as_second(), tr.offset().seconds(), tr.abbreviation()))
                .collect::<Vec<_>>()
                .join(",")
        }
    }
}

/// For `Spec::Fixed(s)`: the answers are known without any reference zone.
pub fn fixed_answer_check(tz: &TimeZone, s: i32) -> Result<(), String> {
    let ts = instant(3);
    let got = tz.to_offset(ts).seconds();
    if got != s {
        return Err(format!("fixed({s}).to_offset() = {got}"));
    }
    match tz.to_fixed_offset() {
        Ok(o) if o.seconds() == s => {}
        other => return Err(format!("fixed({s}).to_fixed_offset() = {other:?}")),
    }
    if s != 0 && tz.iana_name().is_some() {
        return Err(format!("fixed({s}).iana_name() = {:?}", tz.iana_name()));
    }
    Ok(())
}


/// Operators on `Zoned` panic on overflow by contract; only use them well
/// inside the supported range.
fn mid_range(z: &Zoned) -> bool {
    z.timestamp().as_second().abs() < 20_000_000_000
}

/// APIs that build a new `Zoned` (with its own clone of the handle) from an
/// existing one. `None`: not applicable / legitimately failed.
pub fn zoned_make(z: &Zoned, which: u8, arg: i16) -> Option<Zoned> {
    let h = arg as i64;
    let d = SignedDuration::from_secs(h * 977);
    let ud = std::time::Duration::from_secs(h.unsigned_abs() * 977);
    match which % N_ZONED_MAKE {
        0 => z.checked_sub(h.hours()).ok(),
        1 => z.saturating_add(h.hours()).into(),
        2 => z.saturating_sub(h.minutes()).into(),
        3 => z.checked_add(d).ok(),
        4 => z.checked_sub(ud).ok(),
        5 if mid_range(z) => Some(z + h.hours()),
        6 if mid_range(z) => Some(z - h.minutes()),
        7 if mid_range(z) => Some(z + d),
        8 if mid_range(z) => Some(z - d),
        9 if mid_range(z) => Some(z + ud),
        10 if mid_range(z) => Some(z - ud),
        11 => z.start_of_day().ok(),
        12 => z.end_of_day().ok(),
        13 => z.first_of_month().ok(),
        14 => z.last_of_month().ok(),
        15 => z.first_of_year().ok(),
        16 => z.last_of_year().ok(),
        17 => z.tomorrow().ok(),
        18 => z.yesterday().ok(),
        19 => z.nth_weekday(1 + (h.rem_euclid(3)) as i32, jiff::civil::Weekday::Monday).ok(),
        20 => z.with().hour(h.rem_euclid(24) as i8).build().ok(),
        21 => z.round(Unit::Hour).ok(),
        22 => z.checked_add(h.days()).ok(),
        23 => z.nth_weekday_of_month(1, jiff::civil::Weekday::Friday).ok(),
        24 => z.round(Unit::Day).ok(),
        25 => z.round(ZonedRound::new().smallest(Unit::Day).mode(RoundMode::Ceil)).ok(),
        26 => z.round(ZonedRound::new().smallest(Unit::Minute).increment(30)).ok(),
        27 => z.round(ZonedRound::new().smallest(Unit::Second).mode(RoundMode::Floor)).ok(),
        28 => z.with().day(1 + (h.rem_euclid(28)) as i8).minute(0).build().ok(),
        29 => z.with().year((2000 + h.rem_euclid(40)) as i16).build().ok(),
        30 => z
            .with()
            .time(jiff::civil::time(2, 30, 0, 0))
            .disambiguation(Disambiguation::Later)
            .offset_conflict(OffsetConflict::PreferOffset)
            .build()
            .ok(),
        31 => z
            .with()
            .date(jiff::civil::date(2024, 3, 10))
            .disambiguation(Disambiguation::Reject)
            .build()
            .ok(),
        32 => z.with().offset(Offset::constant(3)).offset_conflict(OffsetConflict::Reject).build().ok(),
        33 => z.with().nanosecond(7).offset_conflict(OffsetConflict::AlwaysOffset).build().ok(),
        _ => None,
    }
}

/// In-place APIs; the number of handles must not change.
pub fn zoned_mutate(z: &mut Zoned, which: u8, arg: i16) {
    let h = arg as i64;
    let d = SignedDuration::from_secs(h * 977);
    let ud = std::time::Duration::from_secs(h.unsigned_abs() * 977);
    if !mid_range(z) {
        return;
    }
    match which % N_ZONED_MUTATE {
        0 => *z += h.hours(),
        1 => *z -= h.minutes(),
        2 => *z += d,
        3 => *z -= d,
        4 => *z += ud,
        5 => *z -= ud,
        6 => {
            // clone_from of itself through a temporary
            let tmp = z.clone();
            z.clone_from(&tmp);
        }
        7 => {
            // replace by a value derived from itself
            let next = z.saturating_add(h.seconds());
            let old = std::mem::replace(z, next);
            drop(old);
        }
        _ => {
            // swap with a clone
            let mut other = z.clone();
            std::mem::swap(z, &mut other);
        }
    }
}

pub trait Env {
    /// A new zone instance is about to be created (start recording its
    /// footprint).
    fn pre_new(&mut self, spec: &Spec);
    /// It was created; returns its instance id (an existing id if the
    /// constructor handed out another handle to an existing zone).
    fn post_new(&mut self, spec: &Spec, tz: &TimeZone) -> u32;
    /// The number of live handles of `zone` changed by `delta`.
    fn handles(&mut self, zone: u32, delta: i32);
    /// Checks an answer against the reference.
    fn check_answer(&mut self, spec: &Spec, q: u8, t: u8, got: String);
    /// Reports the result of `a == b` and `b == a`.
    fn eq_result(&mut self, a: (&Spec, u32), b: (&Spec, u32), ab: bool, ba: bool);
    fn fail(&mut self, clause: &'static str, detail: String);
    fn send(&mut self, to: u8, slot: Slot);
    fn recv(&mut self, me: u8) -> Option<Slot>;
    fn swap_shared(&mut self, slot: Option<Slot>) -> Option<Slot>;
    /// Around operations that must not allocate at all.
    /// Memory-model check in the middle of an operation, before the
    /// operation touches a value again. `false`: stop, the run is aborting.
    fn checkpoint(&mut self, what: &'static str) -> bool;
    /// A `Zoned` arithmetic API panicked. That is not a statement about
    /// handles (it belongs to the arithmetic properties), so it is counted
    /// and otherwise ignored; the memory model is still checked after the
    /// unwinding, which dropped the API's temporaries.
    fn api_panic(&mut self, api: &'static str);
    /// The spec thread `me` created most recently (set / get).
    fn last_spec(&mut self, me: u8, set: Option<&Spec>) -> Option<Spec>;
    /// `database.get(...)`: the handle and the zone instance it belongs to
    /// (the model also accounts for the handle the database's cache keeps).
    fn db_get(&mut self, name: u8, case: u8) -> Option<(TimeZone, u32)>;
    fn db_reset(&mut self);
    fn db_advance(&mut self, step: u8);
    fn db_touch(&mut self, name: u8);
    fn no_alloc_begin(&mut self);
    fn no_alloc_end(&mut self, what: &'static str);
}

pub type Slots = Vec<Option<Slot>>;

fn put<E: Env>(slots: &mut Slots, dst: u8, new: Option<Slot>, env: &mut E) {
    let d = dst as usize % SLOTS;
    if let Some(old) = slots[d].take() {
        let zone = old.zone;
        let counted = old.val.has_handle();
        drop(old);
        if counted {
            env.handles(zone, -1);
        }
    }
    slots[d] = new;
}

fn quietly<T>(f: impl FnOnce() -> T) -> Option<T> {
    std::panic::catch_unwind(std::panic::AssertUnwindSafe(f)).ok()
}

fn zoned_consistent(z: &Zoned) -> Result<(), String> {
    let tz = z.time_zone();
    let off = tz.to_offset(z.timestamp());
    if off != z.offset() {
        return Err(format!(
            "Zoned offset {} != time_zone().to_offset(timestamp) {}",
            z.offset(),
            off
        ));
    }
    if off.to_datetime(z.timestamp()) != z.datetime() {
        return Err("Zoned datetime != offset.to_datetime(timestamp)".into());
    }
    Ok(())
}

/// Applies `op` for thread `me`. Returns `true` if the thread must crash
/// now (the caller panics so that unwinding drops `slots`).
pub fn apply<E: Env>(me: u8, op: &Op, slots: &mut Slots, env: &mut E) -> bool {
    let ix = |s: u8| s as usize % SLOTS;
    // `NewAgain` is `New` with the spec this thread used last.
    let again;
    let op = match op {
        Op::NewAgain { dst } => match env.last_spec(me, None) {
            Some(spec) if !matches!(spec, Spec::Db(_)) => {
                again = Op::New { dst: *dst, spec };
                &again
            }
            _ => return false,
        },
        other => other,
    };
    match op {
        Op::NewAgain { .. } => {}
        Op::New { dst, spec } => {
            env.last_spec(me, Some(spec));
            env.pre_new(spec);
            let tz = make_tz(spec);
            let zone = env.post_new(spec, &tz);
            env.handles(zone, 1);
            if let Spec::Fixed(s) = *spec {
                if let Err(e) = fixed_answer_check(&tz, s) {
                    env.fail("fixed_offset", e);
                }
            }
            put(slots, *dst, Some(Slot { val: Val::Tz(tz), zone, spec: spec.clone() }), env);
        }
        Op::Clone { src, dst } => {
            let Some(s) = slots[ix(*src)].as_ref() else { return false };
            if !s.val.has_handle() {
                // A derived value owns no handle (and is not `Clone`).
                return false;
            }
            // Only the kinds documented as allocation-free are held to it; a
            // heap zone may (correctly) do internal work on first use.
            let is_tz = matches!(s.val, Val::Tz(_)) && !s.spec.heap();
            if is_tz {
                env.no_alloc_begin();
            }
            let val = s.val.duplicate();
            if is_tz {
                env.no_alloc_end("clone");
            }
            let (zone, spec) = (s.zone, s.spec.clone());
            env.handles(zone, 1);
            // Stable under cloning.
            let src_tz = slots[ix(*src)].as_ref().unwrap().val.tz();
            if !(val.tz() == src_tz && src_tz == val.tz()) {
                env.fail("eq_clone", format!("clone of {spec:?} != original"));
            }
            put(slots, *dst, Some(Slot { val, zone, spec }), env);
        }
        Op::Drop { slot } => {
            if let Some(old) = slots[ix(*slot)].take() {
                if !old.val.has_handle() {
                    drop(old);
                    return false;
                }
                let zone = old.zone;
                let is_tz = matches!(old.val, Val::Tz(_)) && !old.spec.heap();
                if is_tz {
                    env.no_alloc_begin();
                }
                drop(old);
                if is_tz {
                    env.no_alloc_end("drop");
                }
                env.handles(zone, -1);
            }
        }
        Op::Move { src, dst } => {
            if ix(*src) != ix(*dst) {
                let v = slots[ix(*src)].take();
                if v.is_some() {
                    put(slots, *dst, v, env);
                }
            }
        }
        Op::Eq { a, b } => {
            let (Some(x), Some(y)) = (slots[ix(*a)].as_ref(), slots[ix(*b)].as_ref()) else {
                return false;
            };
            if !x.val.has_handle() || !y.val.has_handle() {
                return false;
            }
            let inline = !x.spec.heap() && !y.spec.heap();
            if inline {
                env.no_alloc_begin();
            }
            let ab = x.val.tz() == y.val.tz();
            let ba = y.val.tz() == x.val.tz();
            let xx = x.val.tz() == x.val.tz();
            if inline {
                env.no_alloc_end("eq");
            }
            if !xx {
                env.fail("eq_reflexive", format!("{:?} != itself", x.spec));
            }
            env.eq_result((&x.spec, x.zone), (&y.spec, y.zone), ab, ba);
        }
        Op::CloneFrom { src, dst } => {
            let (s, d) = (ix(*src), ix(*dst));
            if s == d {
                return false;
            }
            let (Some(x), Some(y)) = (slots[s].as_ref(), slots[d].as_ref()) else {
                return false;
            };
            if !x.val.has_handle()
                || std::mem::discriminant(&x.val) != std::mem::discriminant(&y.val)
            {
                return false;
            }
            let (szone, sspec) = (x.zone, x.spec.clone());
            let mut target = slots[d].take().unwrap();
            let dzone = target.zone;
            match (&mut target.val, &slots[s].as_ref().unwrap().val) {
                (Val::Tz(a), Val::Tz(b)) => a.clone_from(b),
                (Val::Zoned(a), Val::Zoned(b)) => a.clone_from(b),
                (Val::Amb(a), Val::Amb(b)) => a.clone_from(b),
                _ => unreachable!(),
            }
            env.handles(dzone, -1);
            env.handles(szone, 1);
            target.zone = szone;
            target.spec = sspec;
            slots[d] = Some(target);
        }
        Op::Query { a, q, t } => {
            let Some(x) = slots[ix(*a)].as_ref() else { return false };
            if !x.val.has_handle() {
                return false;
            }
            let got = answer(x.val.tz(), *q, *t);
            let spec = x.spec.clone();
            if let Val::Zoned(ref z) = x.val {
                if let Err(e) = zoned_consistent(z) {
                    env.fail("zoned_consistency", e);
                }
            }
            env.check_answer(&spec, *q, *t, got);
        }
        Op::IntoZoned { src, dst, t } => {
            let Some(x) = slots[ix(*src)].as_ref() else { return false };
            if !x.val.has_handle() {
                return false;
            }
            let tz = x.val.tz().clone();
            let (zone, spec) = (x.zone, x.spec.clone());
            env.handles(zone, 1);
            let z = instant(*t).to_zoned(tz);
            if let Err(e) = zoned_consistent(&z) {
                env.fail("zoned_consistency", e);
            }
            put(slots, *dst, Some(Slot { val: Val::Zoned(z), zone, spec }), env);
        }
        Op::ZonedAdd { src, dst, hours } => {
            let Some(x) = slots[ix(*src)].as_ref() else { return false };
            let Val::Zoned(ref z) = x.val else { return false };
            let (zone, spec) = (x.zone, x.spec.clone());
            match z.checked_add((*hours as i64).hours()) {
                Ok(z2) => {
                    env.handles(zone, 1);
                    if let Err(e) = zoned_consistent(&z2) {
                        env.fail("zoned_consistency", e);
                    }
                    put(slots, *dst, Some(Slot { val: Val::Zoned(z2), zone, spec }), env);
                }
                Err(_) => {}
            }
        }
        Op::ZonedWithTz { src, tz, dst } => {
            let (Some(x), Some(y)) = (slots[ix(*src)].as_ref(), slots[ix(*tz)].as_ref()) else {
                return false;
            };
            let Val::Zoned(ref z) = x.val else { return false };
            if !y.val.has_handle() {
                return false;
            }
            let handle = y.val.tz().clone();
            let (zone, spec) = (y.zone, y.spec.clone());
            env.handles(zone, 1);
            let z2 = z.with_time_zone(handle);
            if let Err(e) = zoned_consistent(&z2) {
                env.fail("zoned_consistency", e);
            }
            put(slots, *dst, Some(Slot { val: Val::Zoned(z2), zone, spec }), env);
        }
        Op::ExtractTz { src, dst } => {
            let Some(x) = slots[ix(*src)].as_ref() else { return false };
            if !x.val.has_handle() {
                return false;
            }
            let tz = x.val.tz().clone();
            let (zone, spec) = (x.zone, x.spec.clone());
            env.handles(zone, 1);
            put(slots, *dst, Some(Slot { val: Val::Tz(tz), zone, spec }), env);
        }
        Op::ToAmbiguous { src, dst, dt, consume } => {
            let s = ix(*src);
            let Some(x) = slots[s].as_ref() else { return false };
            if !matches!(x.val, Val::Tz(_)) {
                return false;
            }
            let (zone, spec) = (x.zone, x.spec.clone());
            let amb = if *consume {
                // The handle moves into the result: count unchanged.
                let Some(Slot { val: Val::Tz(tz), .. }) = slots[s].take() else {
                    unreachable!()
                };
                tz.into_ambiguous_zoned(datetime(*dt))
            } else {
                let Val::Tz(ref tz) = x.val else { unreachable!() };
                env.handles(zone, 1);
                tz.to_ambiguous_zoned(datetime(*dt))
            };
            put(slots, *dst, Some(Slot { val: Val::Amb(amb), zone, spec }), env);
        }
        Op::Resolve { src, dst, later } => {
            let s = ix(*src);
            let Some(x) = slots[s].as_ref() else { return false };
            if !matches!(x.val, Val::Amb(_)) {
                return false;
            }
            let Some(Slot { val: Val::Amb(amb), zone, spec }) = slots[s].take() else {
                unreachable!()
            };
            let r = if *later { amb.later() } else { amb.compatible() };
            match r {
                Ok(z) => {
                    if let Err(e) = zoned_consistent(&z) {
                        env.fail("zoned_consistency", e);
                    }
                    put(slots, *dst, Some(Slot { val: Val::Zoned(z), zone, spec }), env);
                }
                Err(_) => {
                    // The handle inside `amb` was dropped with it.
                    env.handles(zone, -1);
                }
            }
        }
        Op::ZonedMake { src, dst, which, arg } => {
            let Some(x) = slots[ix(*src)].as_ref() else { return false };
            let Val::Zoned(ref z) = x.val else { return false };
            let (zone, spec) = (x.zone, x.spec.clone());
            let made = match quietly(|| zoned_make(z, *which, *arg)) {
                Some(m) => m,
                None => {
                    env.api_panic("zoned_make");
                    None
                }
            };
            if let Some(z2) = made {
                env.handles(zone, 1);
                if let Err(e) = zoned_consistent(&z2) {
                    env.fail("zoned_consistency", e);
                }
                if z2.time_zone() != z.time_zone() {
                    env.fail("eq_clone", format!("Zoned API {which} changed the time zone of a {spec:?}"));
                }
                put(slots, *dst, Some(Slot { val: Val::Zoned(z2), zone, spec }), env);
            }
        }
        Op::ZonedMutate { slot, which, arg } => {
            let Some(x) = slots[ix(*slot)].as_mut() else { return false };
            let Val::Zoned(ref mut z) = x.val else { return false };
            if quietly(|| zoned_mutate(z, *which, *arg)).is_none() {
                env.api_panic("zoned_mutate");
            }
            if !env.checkpoint("zoned_mutate") {
                return false;
            }
            let Some(Slot { val: Val::Zoned(ref z), .. }) = slots[ix(*slot)] else {
                return false;
            };
            if let Err(e) = zoned_consistent(z) {
                env.fail("zoned_consistency", e);
            }
        }
        Op::ZonedCompare { a, b } => {
            let (Some(x), Some(y)) = (slots[ix(*a)].as_ref(), slots[ix(*b)].as_ref()) else {
                return false;
            };
            let (Val::Zoned(ref p), Val::Zoned(ref q)) = (&x.val, &y.val) else { return false };
            let (pq, qp) = (p == q, q == p);
            if pq != qp || !(p == p) {
                env.fail("eq_symmetric", "Zoned equality is not symmetric/reflexive".into());
            }
            if (p.cmp(q) == core::cmp::Ordering::Equal) != (p.timestamp() == q.timestamp()) {
                env.fail("zoned_consistency", "Zoned ordering disagrees with its timestamp".into());
            }
            let _ = p.duration_until(q);
            // Equal values hash equally.
            use std::hash::{Hash, Hasher};
            let h = |z: &Zoned| {
                let mut s = std::collections::hash_map::DefaultHasher::new();
                z.hash(&mut s);
                s.finish()
            };
            if pq && h(p) != h(q) {
                env.fail("zoned_consistency", "equal Zoned values hash differently".into());
            }
        }
        Op::ZonedPair { a, b, which } => {
            let (Some(x), Some(y)) = (slots[ix(*a)].as_ref(), slots[ix(*b)].as_ref()) else {
                return false;
            };
            let (Val::Zoned(ref p), Val::Zoned(ref q)) = (&x.val, &y.val) else { return false };
            // All of these only read `p` and `q`; none may change the number
            // of handles. Results are checked for basic sanity only (the
            // arithmetic itself is a different property).
            let units = [Unit::Year, Unit::Month, Unit::Week, Unit::Day, Unit::Hour, Unit::Second];
            let w = which % N_ZONED_PAIR;
            let span = quietly(|| match w {
                0..=5 => p.until((units[w as usize], q)).ok(),
                6..=11 => p.since((units[(w - 6) as usize], q)).ok(),
                12 => p.until(q).ok(),
                13 => p.since(q).ok(),
                14 if mid_range(p) && mid_range(q) => Some(p - q),
                _ => {
                    let _ = p.duration_since(q);
                    None
                }
            });
            let span = match span {
                Some(s) => s,
                None => {
                    env.api_panic("zoned_pair");
                    None
                }
            };
            if let Some(span) = span {
                if p.timestamp() == q.timestamp() && !span.is_zero() {
                    env.fail("zoned_consistency", "until/since of equal instants is not zero".into());
                }
            }
        }
        Op::ZonedSweep { a } => {
            let Some(x) = slots[ix(*a)].as_ref() else { return false };
            let Val::Zoned(ref p) = x.val else { return false };
            let units = [Unit::Year, Unit::Month, Unit::Week, Unit::Day, Unit::Hour];
            let mut panics = 0;
            for t in 0..N_INSTANTS {
                // The temporary owns its own handle; it is gone again at the
                // end of each iteration, so the handle count is unchanged.
                let q = instant(t).to_zoned(p.time_zone().clone());
                env.handles(x.zone, 1);
                for u in units {
                    for dir in 0..3 {
                        let r = quietly(|| match dir {
                            0 => drop(p.until((u, &q))),
                            1 => drop(q.until((u, p))),
                            _ => drop(p.since((u, &q))),
                        });
                        if r.is_none() {
                            panics += 1;
                        }
                        // A lost count may already have freed the zone: look
                        // before touching it again.
                        env.handles(x.zone, 0);
                        if !env.checkpoint("zoned_sweep") {
                            std::mem::forget(q);
                            return false;
                        }
                    }
                }
                drop(q);
                env.handles(x.zone, -1);
                // A lost count may already have freed the zone `p` points
                // into: look before touching it again.
                if !env.checkpoint("zoned_sweep") {
                    return false;
                }
                let Some(Slot { val: Val::Zoned(_), .. }) = slots[ix(*a)] else { return false };
            }
            for _ in 0..panics {
                env.api_panic("zoned_sweep");
            }
        }
        Op::ZonedSpanRel { a, which, arg } => {
            let Some(x) = slots[ix(*a)].as_ref() else { return false };
            let Val::Zoned(ref z) = x.val else { return false };
            let n = *arg as i64;
            let span = n.days().hours(n % 24).months((n % 7) as i64);
            let other = (n % 5).months().days(n % 31);
            let r = quietly(|| match which % N_SPAN_REL {
                0 => drop(span.total((Unit::Day, z))),
                1 => drop(span.total((Unit::Month, z))),
                2 => drop(span.round(SpanRound::new().largest(Unit::Year).relative(z))),
                3 => drop(span.round(SpanRound::new().smallest(Unit::Day).relative(z))),
                4 => drop(span.compare((other, z))),
                5 => drop(span.checked_add((other, z))),
                6 => drop(span.checked_sub((other, z))),
                _ => {
                    let text = z.to_string();
                    let _ = z.strftime("%Y-%m-%d %H:%M:%S %Z %z %Q").to_string();
                    drop(text);
                }
            });
            if r.is_none() {
                env.api_panic("zoned_span_rel");
            }
        }
        Op::TzMake { src, dst, which, t } => {
            let Some(x) = slots[ix(*src)].as_ref() else { return false };
            if !x.val.has_handle() {
                return false;
            }
            let tz = x.val.tz();
            let (zone, spec) = (x.zone, x.spec.clone());
            let dt = datetime(*t);
            let made: Option<Val> = match which % N_TZ_MAKE {
                0 => Some(Val::Zoned(Zoned::new(instant(*t), tz.clone()))),
                1 => tz.to_zoned(dt).ok().map(Val::Zoned),
                2 => dt.to_zoned(tz.clone()).ok().map(Val::Zoned),
                3 => dt.date().to_zoned(tz.clone()).ok().map(Val::Zoned),
                4 => Some(Val::Amb(tz.to_ambiguous_zoned(dt))),
                5 => Some(Val::Zoned(instant(*t).to_zoned(tz.clone()))),
                // `OffsetConflict::resolve` consumes the handle; on the error
                // paths it is dropped inside.
                w => {
                    let conflict = match w {
                        6 => OffsetConflict::AlwaysOffset,
                        7 => OffsetConflict::AlwaysTimeZone,
                        8 => OffsetConflict::PreferOffset,
                        _ => OffsetConflict::Reject,
                    };
                    let off = if *t % 2 == 0 {
                        tz.to_offset(instant(*t))
                    } else {
                        Offset::from_seconds(3 * 3600 + 17).unwrap()
                    };
                    conflict.resolve(dt, off, tz.clone()).ok().map(Val::Amb)
                }
            };
            if let Some(val) = made {
                env.handles(zone, 1);
                if let Val::Zoned(ref z) = val {
                    if let Err(e) = zoned_consistent(z) {
                        env.fail("zoned_consistency", e);
                    }
                }
                put(slots, *dst, Some(Slot { val, zone, spec }), env);
            }
        }
        Op::AmbOp { src, dst, which } => {
            let s = ix(*src);
            let Some(x) = slots[s].as_ref() else { return false };
            if !matches!(x.val, Val::Amb(_)) {
                return false;
            }
            let Some(Slot { val: Val::Amb(amb), zone, spec }) = slots[s].take() else {
                unreachable!()
            };
            // Every variant consumes `amb`; the handle either moves into the
            // result or is dropped with it.
            let r: Option<Val> = match which % N_AMB_OPS {
                0 => Some(Val::Tz(amb.into_time_zone())),
                1 => amb.earlier().ok().map(Val::Zoned),
                2 => amb.unambiguous().ok().map(Val::Zoned),
                3 => amb.disambiguate(Disambiguation::Reject).ok().map(Val::Zoned),
                4 => amb.disambiguate(Disambiguation::Later).ok().map(Val::Zoned),
                _ => {
                    let c = amb.clone();
                    drop(amb);
                    Some(Val::Amb(c))
                }
            };
            match r {
                Some(val) => put(slots, *dst, Some(Slot { val, zone, spec }), env),
                None => env.handles(zone, -1),
            }
        }
        Op::MakeDerived { src, dst } => {
            let Some(x) = slots[ix(*src)].as_ref() else { return false };
            let Val::Zoned(ref z) = x.val else { return false };
            let b = jiff::fmt::strtime::BrokenDownTime::from(z);
            let said = derived_answer(&b);
            let (zone, spec) = (x.zone, x.spec.clone());
            put(slots, *dst, Some(Slot { val: Val::Derived(Box::new(b), said), zone, spec }), env);
        }
        Op::UseDerived { slot } => {
            let Some(x) = slots[ix(*slot)].as_ref() else { return false };
            let Val::Derived(ref b, ref said) = x.val else { return false };
            // Whatever happened to the zone since, the derived value must
            // still say what it said when it was made.
            let now = derived_answer(b);
            if &now != said {
                env.fail(
                    "derived_value",
                    format!(
                        "a BrokenDownTime made from a {:?} zoned datetime said {said:?} when it was made and says {now:?} now",
                        x.spec
                    ),
                );
            }
        }
        Op::DbGet { dst, name, case } => {
            if let Some((tz, zone)) = env.db_get(*name, *case) {
                env.handles(zone, 1);
                let spec = Spec::Db(*name % DB_NAMES.len() as u8);
                put(slots, *dst, Some(Slot { val: Val::Tz(tz), zone, spec }), env);
            }
        }
        Op::DbReset => env.db_reset(),
        Op::DbAdvance { step } => env.db_advance(*step),
        Op::DbTouch { name } => env.db_touch(*name),
        Op::Send { slot, to } => {
            if let Some(v) = slots[ix(*slot)].take() {
                env.send(*to, v);
            }
        }
        Op::Recv { dst } => {
            if let Some(v) = env.recv(me) {
                put(slots, *dst, Some(v), env);
            }
        }
        Op::SwapShared { slot } => {
            let mine = slots[ix(*slot)].take();
            slots[ix(*slot)] = env.swap_shared(mine);
        }
        Op::Crash => return true,
    }
    false
}
