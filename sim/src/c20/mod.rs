//! C20: `TimeZone` handles under clone, drop, compare and sharing.
//!
//! Native tier: programs x schedules in the simulator, with the counting
//! allocator as memory oracle, a reference-answer model and equality laws.

pub mod interp;
pub mod prog;

use std::cell::RefCell;
use std::collections::{HashMap, VecDeque};
use std::sync::Arc;

use jiff::tz::{Offset, TimeZone};
use serde_json::{json, Value};

use crate::alloc;
use crate::c20::interp::{Env, Slot, Slots};
use crate::c20::prog::*;
use crate::driver::{Outcome, Prop, SchedSpec, Stats, Tier, Violation, WorkerCtx};
use crate::rng::{Fnv, Rng};
use crate::sim::{self, AbortRun};

struct ZoneModel {
    spec: Spec,
    handles: i64,
    footprint: usize,
    reference: bool,
}

struct Run {
    zones: Vec<ZoneModel>,
    refs: HashMap<Spec, (TimeZone, u32)>,
    ref_answers: HashMap<(Spec, u8, u8), String>,
    eq_seen: HashMap<(u32, u32), bool>,
    chans: Vec<VecDeque<Slot>>,
    shared: Option<Slot>,
    violations: Vec<Violation>,
    abort: bool,
    log: Vec<Value>,
    want_log: bool,
    no_alloc_mark: u64,
    // statistics
    ops_run: u64,
    op_counts: HashMap<&'static str, u64>,
    kind_counts: HashMap<&'static str, u64>,
    crashes: u64,
    sends: u64,
    recvs: u64,
    last_drop_by_other_thread: u64,
    max_shared: i64,
    answers_checked: u64,
    eq_checked: u64,
    mem_checks: u64,
    fp: Fnv,
}

thread_local! {
    static RUN: RefCell<Option<Run>> = const { RefCell::new(None) };
}

fn with_run<R>(f: impl FnOnce(&mut Run) -> R) -> R {
    RUN.with(|r| f(r.borrow_mut().as_mut().expect("no c20 run")))
}

fn aborting() -> bool {
    RUN.with(|r| r.borrow().as_ref().map_or(true, |r| r.abort))
}

fn violate(clause: &str, detail: String) {
    with_run(|r| {
        r.violations.push(Violation { clause: clause.to_string(), detail });
        r.abort = true;
    });
}

/// Slots of one thread. If the run is being aborted because of a memory
/// violation, the values are leaked instead of dropped (dropping them could
/// touch freed memory).
struct SlotBox(Slots);

impl Drop for SlotBox {
    fn drop(&mut self) {
        let slots = std::mem::take(&mut self.0);
        if aborting() {
            std::mem::forget(slots);
        } else {
            // Normal end or crash unwinding: really drop, and tell the model.
            for s in slots.into_iter().flatten() {
                let zone = s.zone;
                drop(s);
                NativeEnv.handles(zone, -1);
            }
        }
    }
}

struct NativeEnv;

impl NativeEnv {
    fn new_zone(&mut self, spec: &Spec, reference: bool) -> u32 {
        // Close the recording window before the harness allocates anything.
        let zone = with_run(|r| r.zones.len() as u32);
        let fp = alloc::record_finish(zone);
        with_run(|r| {
            r.zones.push(ZoneModel {
                spec: spec.clone(),
                handles: 0,
                footprint: fp,
                reference,
            })
        });
        if !spec.heap() && fp != 0 {
            violate(
                "unexpected_alloc",
                format!("creating {spec:?} left {} allocation(s) live", fp),
            );
        }
        if spec.heap() && fp == 0 {
            violate(
                "harness_model",
                format!("creating {spec:?} allocated nothing"),
            );
        }
        zone
    }
}

impl Env for NativeEnv {
    fn pre_new(&mut self, _spec: &Spec) {
        alloc::record_start();
    }

    fn post_new(&mut self, spec: &Spec) -> u32 {
        let z = self.new_zone(spec, false);
        with_run(|r| *r.kind_counts.entry(spec.kind_name()).or_default() += 1);
        z
    }

    fn handles(&mut self, zone: u32, delta: i32) {
        with_run(|r| {
            let z = &mut r.zones[zone as usize];
            z.handles += delta as i64;
            if z.handles > r.max_shared && z.spec.heap() {
                r.max_shared = z.handles;
            }
        });
    }

    fn check_answer(&mut self, spec: &Spec, q: u8, t: u8, got: String) {
        let key = (spec.clone(), q, t);
        let cached = with_run(|r| r.ref_answers.get(&key).cloned());
        let want = match cached {
            Some(w) => w,
            None => {
                // The reference handle: created once per spec, never cloned
                // or dropped until the run ends.
                let have = with_run(|r| r.refs.contains_key(spec));
                if !have {
                    alloc::record_start();
                    let tz = interp::make_tz(spec);
                    let zone = self.new_zone(spec, true);
                    self.handles(zone, 1);
                    with_run(|r| r.refs.insert(spec.clone(), (tz, zone)));
                }
                let w = with_run(|r| interp::answer(&r.refs[spec].0, q, t));
                with_run(|r| r.ref_answers.insert(key, w.clone()));
                w
            }
        };
        with_run(|r| r.answers_checked += 1);
        if want != got {
            violate(
                "answer",
                format!("query {q} at instant {t} on a {spec:?} handle returned {got:?}, reference says {want:?}"),
            );
        }
    }

    fn eq_result(&mut self, a: (&Spec, u32), b: (&Spec, u32), ab: bool, ba: bool) {
        with_run(|r| r.eq_checked += 1);
        if ab != ba {
            violate("eq_symmetric", format!("{:?} == {:?} is {ab} but the reverse is {ba}", a.0, b.0));
            return;
        }
        if a.1 == b.1 && !ab {
            violate("eq_same_zone", format!("two handles of one {:?} zone compare unequal", a.0));
            return;
        }
        if a.0.class() == b.0.class() {
            let want = a.0.canon() == b.0.canon();
            if ab != want {
                violate(
                    "eq_value",
                    format!("{:?} == {:?} is {ab}, expected {want}", a.0, b.0),
                );
                return;
            }
        }
        // Stable: the same two zones always compare the same way.
        let key = (a.1.min(b.1), a.1.max(b.1));
        let prev = with_run(|r| r.eq_seen.insert(key, ab));
        if let Some(p) = prev {
            if p != ab {
                violate("eq_stable", format!("{:?} == {:?} changed from {p} to {ab}", a.0, b.0));
            }
        }
    }

    fn fail(&mut self, clause: &'static str, detail: String) {
        violate(clause, detail);
    }

    fn send(&mut self, to: u8, slot: Slot) {
        with_run(|r| {
            r.sends += 1;
            let n = r.chans.len();
            r.chans[to as usize % n].push_back(slot);
        });
    }

    fn recv(&mut self, me: u8) -> Option<Slot> {
        with_run(|r| {
            let n = r.chans.len();
            let v = r.chans[me as usize % n].pop_front();
            if v.is_some() {
                r.recvs += 1;
            }
            v
        })
    }

    fn swap_shared(&mut self, slot: Option<Slot>) -> Option<Slot> {
        with_run(|r| std::mem::replace(&mut r.shared, slot))
    }

    fn no_alloc_begin(&mut self) {
        let (a, _) = alloc::counters();
        with_run(|r| r.no_alloc_mark = a);
    }

    fn no_alloc_end(&mut self, what: &'static str) {
        let (a, _) = alloc::counters();
        let mark = with_run(|r| r.no_alloc_mark);
        if a != mark {
            violate("unexpected_alloc", format!("{what} allocated {} time(s)", a - mark));
        }
    }
}

/// The memory model, checked after every operation.
fn check_memory(after: &str) {
    for ev in alloc::take_events().into_iter().flatten() {
        match ev {
            alloc::MemEvent::DoubleFree { zone, .. } => {
                let spec = with_run(|r| r.zones.get(zone as usize).map(|z| z.spec.clone()));
                violate(
                    "double_free",
                    format!("memory of zone #{zone} ({spec:?}) was freed twice (during {after})"),
                );
            }
        }
    }
    let n = with_run(|r| {
        r.mem_checks += 1;
        r.zones.len()
    });
    for z in 0..n {
        let (handles, spec, footprint) = with_run(|r| {
            let m = &r.zones[z];
            (m.handles, m.spec.clone(), m.footprint)
        });
        let (live, freed) = alloc::zone_status(z as u32);
        if handles < 0 {
            violate("harness_model", format!("handle count of zone #{z} is {handles}"));
        } else if handles > 0 && freed > 0 {
            violate(
                "premature_free",
                format!(
                    "{freed} of {footprint} allocation(s) of zone #{z} ({spec:?}) were freed while {handles} handle(s) are still alive (after {after})"
                ),
            );
        } else if handles == 0 && live > 0 {
            violate(
                "leak",
                format!(
                    "{live} of {footprint} allocation(s) of zone #{z} ({spec:?}) are still allocated although its last handle is gone (after {after})"
                ),
            );
        }
    }
}

struct CrashMarker;

fn thread_main(me: u8, ops: Vec<Op>) {
    let r = std::panic::catch_unwind(std::panic::AssertUnwindSafe(|| {
        let mut slots = SlotBox((0..SLOTS).map(|_| None).collect());
        let mut env = NativeEnv;
        for (i, op) in ops.iter().enumerate() {
            sim::yield_point("c20.op");
            if aborting() {
                return;
            }
            let crash = interp::apply(me, op, &mut slots.0, &mut env);
            with_run(|r| {
                r.ops_run += 1;
                *r.op_counts.entry(op.name()).or_default() += 1;
                r.fp.byte(me);
                r.fp.bytes(op.name().as_bytes());
                if r.want_log {
                    r.log.push(json!({"thread": me, "index": i, "op": format!("{op:?}")}));
                }
            });
            check_memory(op.name());
            if aborting() {
                return;
            }
            if crash {
                with_run(|r| r.crashes += 1);
                std::panic::panic_any(CrashMarker);
            }
        }
    }));
    if let Err(p) = r {
        if p.is::<CrashMarker>() {
            // Unwinding dropped every handle the thread owned.
            if !aborting() {
                check_memory("crash unwinding");
            }
        } else if !p.is::<AbortRun>() {
            let msg = sim::with_rt(|rt| rt.last_panic.take())
                .unwrap_or_else(|| sim::panic_message(&*p));
            violate("panic", format!("thread {me} panicked: {msg}"));
        }
    }
}

fn run_case(case: Arc<Case>, want_log: bool) {
    alloc::reset_watches();
    RUN.with(|r| {
        *r.borrow_mut() = Some(Run {
            zones: vec![],
            refs: HashMap::new(),
            ref_answers: HashMap::new(),
            eq_seen: HashMap::new(),
            chans: (0..case.threads.len()).map(|_| VecDeque::new()).collect(),
            shared: None,
            violations: vec![],
            abort: false,
            log: vec![],
            want_log,
            no_alloc_mark: 0,
            ops_run: 0,
            op_counts: HashMap::new(),
            kind_counts: HashMap::new(),
            crashes: 0,
            sends: 0,
            recvs: 0,
            last_drop_by_other_thread: 0,
            max_shared: 0,
            answers_checked: 0,
            eq_checked: 0,
            mem_checks: 0,
            fp: Fnv::new(),
        })
    });
    let mut joins = vec![];
    for (i, ops) in case.threads.iter().enumerate() {
        let ops = ops.clone();
        let me = i as u8;
        joins.push(shuttle::thread::spawn(move || thread_main(me, ops)));
    }
    for j in joins {
        let _ = j.join();
    }
    // Everything still in flight or held by the harness goes now.
    let (chans, shared, refs) = with_run(|r| {
        (
            std::mem::take(&mut r.chans),
            r.shared.take(),
            std::mem::take(&mut r.refs),
        )
    });
    if aborting() {
        std::mem::forget((chans, shared, refs));
        return;
    }
    let mut env = NativeEnv;
    for q in chans {
        for s in q {
            let zone = s.zone;
            drop(s);
            env.handles(zone, -1);
        }
    }
    if let Some(s) = shared {
        let zone = s.zone;
        drop(s);
        env.handles(zone, -1);
    }
    check_memory("draining channels");
    for (_, (tz, zone)) in refs {
        drop(tz);
        env.handles(zone, -1);
    }
    check_memory("dropping reference handles");
    // End of run: nothing may be left.
    let leftover: Vec<(usize, i64)> = with_run(|r| {
        r.zones
            .iter()
            .enumerate()
            .filter(|(_, z)| z.handles != 0)
            .map(|(i, z)| (i, z.handles))
            .collect()
    });
    if !leftover.is_empty() && !aborting() {
        violate("harness_model", format!("handles left at end of run: {leftover:?}"));
    }
    let _ = with_run(|r| r.zones.iter().filter(|z| z.reference).count());
}

/// All 187,199 fixed offsets: create, clone, query, compare with the
/// neighbour, drop; nothing may allocate. Deterministic; run once per batch.
pub fn fixed_sweep() -> Result<u64, Violation> {
    let (a0, _) = alloc::counters();
    let ts = interp::instant(3);
    let mut n = 0u64;
    let mut prev: Option<TimeZone> = None;
    for s in -93_599..=93_599i32 {
        let s = std::hint::black_box(s);
        let off = Offset::from_seconds(s).unwrap();
        let tz = TimeZone::fixed(off);
        let c = tz.clone();
        let bad = |what: &str| Violation {
            clause: "fixed_offset".into(),
            detail: format!("fixed offset {s} s: {what}"),
        };
        if tz.to_offset(ts).seconds() != s {
            return Err(bad(&format!("to_offset returned {}", tz.to_offset(ts).seconds())));
        }
        match c.to_fixed_offset() {
            Ok(o) if o.seconds() == s => {}
            other => return Err(bad(&format!("to_fixed_offset returned {other:?}"))),
        }
        if !(tz == c && c == tz) {
            return Err(bad("clone compares unequal"));
        }
        if let Some(ref p) = prev {
            if p == &tz || &tz == p {
                return Err(bad("compares equal to its neighbour"));
            }
        }
        if (s == 0) != (tz == TimeZone::UTC) {
            return Err(bad("comparison with UTC is wrong"));
        }
        let z = ts.to_zoned(c);
        if z.offset().seconds() != s {
            return Err(bad("Zoned offset differs"));
        }
        drop(z);
        prev = Some(tz);
        n += 1;
    }
    drop(prev);
    let (a1, _) = alloc::counters();
    if a1 != a0 {
        return Err(Violation {
            clause: "unexpected_alloc".into(),
            detail: format!("the fixed-offset sweep allocated {} time(s)", a1 - a0),
        });
    }
    Ok(n)
}

/// One-time warm-up so that lazily initialised statics inside jiff or std
/// are not attributed to the first zone of the first run.
pub fn warm_up() {
    let mut r = Rng::new(1);
    for _ in 0..64 {
        let s = fresh_spec(&mut r);
        let tz = interp::make_tz(&s);
        for q in 0..N_QUERIES {
            let _ = interp::answer(&tz, q, 3);
        }
    }
}

pub struct C20;

impl Prop for C20 {
    type Case = Case;

    fn id(&self) -> &'static str {
        "C20"
    }

    fn generate(&self, rng: &mut Rng, tier: Tier, _run: u64) -> Case {
        generate(rng, tier == Tier::Thorough)
    }

    fn est_len(&self, case: &Case) -> u32 {
        case.threads.iter().map(|t| t.len() as u32 + 2).sum::<u32>() + 4
    }

    fn execute(
        &self,
        case: &Arc<Case>,
        sched: &SchedSpec,
        _ctx: &WorkerCtx,
        stats: Option<&mut Stats>,
        want_trace: bool,
    ) -> Outcome {
        static WARM: std::sync::Once = std::sync::Once::new();
        WARM.call_once(|| {
            warm_up();
            alloc::enable();
        });
        let c = case.clone();
        let out = sim::exec_one(
            sched.policy(),
            sched.seed,
            sched.choices.clone(),
            100_000,
            move || run_case(c.clone(), want_trace),
        );
        let run = RUN.with(|r| r.borrow_mut().take());
        let mut harness_error =
            out.escaped_panic.map(|m| format!("panic escaped the execution: {m}"));
        let Some(run) = run else {
            return Outcome {
                fingerprint: 0,
                nontrivial: false,
                violations: vec![],
                harness_error: harness_error.or(Some("no run state".into())),
                choices: out.choices,
                trace: Value::Null,
            };
        };
        if let Some(a) = out.abort {
            harness_error.get_or_insert(format!("simulator aborted the run: {a:?}"));
        }
        let mut violations = vec![];
        for v in run.violations.iter() {
            if v.clause == "harness_model" {
                harness_error.get_or_insert(v.detail.clone());
            } else {
                violations.push(v.clone());
            }
        }
        let nontrivial = run.max_shared >= 2;
        if let Some(stats) = stats {
            stats.steps += out.steps;
            stats.switches += out.switches;
            stats.add("ops.executed", run.ops_run);
            for (k, v) in run.op_counts.iter() {
                stats.add(op_key(k), *v);
            }
            for (k, v) in run.kind_counts.iter() {
                stats.add(kind_key(k), *v);
            }
            stats.add("fault.thread_crash.injected", run.crashes);
            stats.add("handles.sent_between_threads", run.sends);
            stats.add("handles.received", run.recvs);
            stats.add("oracle.answers_checked", run.answers_checked);
            stats.add("oracle.eq_checked", run.eq_checked);
            stats.add("oracle.memory_model_checks", run.mem_checks);
            stats.add("zones.instances", run.zones.len() as u64);
            stats.add(
                "zones.heap_instances",
                run.zones.iter().filter(|z| z.spec.heap()).count() as u64,
            );
            if nontrivial {
                stats.add("runs.heap_zone_shared_by_2plus_handles", 1);
            }
            stats.add(
                match case.threads.len() {
                    1 => "threads.1",
                    2 => "threads.2",
                    3 => "threads.3",
                    _ => "threads.4",
                },
                1,
            );
            let _ = run.last_drop_by_other_thread;
        }
        let mut fp = run.fp;
        fp.u64(run.zones.len() as u64);
        let trace = if want_trace || !violations.is_empty() {
            json!({ "executed": run.log })
        } else {
            Value::Null
        };
        Outcome {
            fingerprint: fp.0,
            nontrivial,
            violations,
            harness_error,
            choices: out.choices,
            trace,
        }
    }

    fn worker_args(&self) -> Vec<String> {
        vec!["--prop".into(), "c20".into()]
    }

    fn isolate(&self) -> bool {
        true
    }

    fn size(&self, case: &Case) -> usize {
        case.threads.iter().map(|t| t.len() * 2 + 1).sum()
    }

    fn shrink(&self, case: &Case) -> Vec<Case> {
        let mut out = vec![];
        for t in 0..case.threads.len() {
            if case.threads.len() > 1 {
                let mut c = case.clone();
                c.threads[t].clear();
                out.push(c);
            }
        }
        for t in 0..case.threads.len() {
            let n = case.threads[t].len();
            if n >= 4 {
                let mut c = case.clone();
                c.threads[t].truncate(n / 2);
                out.push(c);
                let mut c = case.clone();
                c.threads[t].drain(..n / 2);
                out.push(c);
            }
            for i in (0..n).rev() {
                let mut c = case.clone();
                c.threads[t].remove(i);
                out.push(c);
            }
        }
        out
    }
}

fn op_key(k: &str) -> &'static str {
    macro_rules! m {
        ($($n:literal),*) => { match k { $($n => concat!("ops.", $n),)* _ => "ops.other" } };
    }
    m!(
        "new", "clone", "drop", "move", "eq", "query", "into_zoned", "zoned_add",
        "zoned_with_tz", "extract_tz", "to_ambiguous", "resolve", "send", "recv",
        "swap_shared", "crash"
    )
}

fn kind_key(k: &str) -> &'static str {
    macro_rules! m {
        ($($n:literal),*) => { match k { $($n => concat!("zones.created.", $n),)* _ => "zones.created.other" } };
    }
    m!("utc", "unknown", "fixed", "posix", "tzif_real", "tzif_synth", "static")
}
