//! C20: `TimeZone` handles under clone, drop, compare and sharing.
//!
//! Native tier: programs x schedules in the simulator, with the counting
//! allocator as memory oracle, a reference-answer model and equality laws.

pub mod golden;
pub mod interp;
pub mod prog;

use std::collections::{HashMap, VecDeque};
use std::sync::{Arc, Condvar, Mutex};

use jiff::tz::{Offset, TimeZone, TimeZoneDatabase};
use serde_json::{json, Value};

use crate::alloc;
use crate::c20::interp::{Env, Slot, Slots};
use crate::c20::prog::*;
use crate::driver::{Outcome, Prop, SchedSpec, Stats, Tier, Violation, WorkerCtx};
use crate::rng::{Fnv, Rng};
use crate::sim::{self, Policy};

struct ZoneModel {
    spec: Spec,
    handles: i64,
    footprint: usize,
    reference: bool,
    /// (address, allocation serial) of the reference-counted block the
    /// handles point into, when known.
    arc_block: Option<(usize, u64)>,
    /// Somebody outside the program (jiff's system-zone cache) keeps a handle
    /// of its own for as long as it likes: only the program's handles are
    /// counted, and the zone staying allocated is not a leak.
    pinned: bool,
}

struct Run {
    zones: Vec<ZoneModel>,
    refs: HashMap<Spec, (TimeZone, u32)>,
    ref_answers: HashMap<(Spec, u8, u8), String>,
    eq_seen: HashMap<(u32, u32), bool>,
    chans: Vec<VecDeque<Slot>>,
    shared: Option<Slot>,
    violations: Vec<Violation>,
    abort: bool,
    log: Vec<Value>,
    want_log: bool,
    no_alloc_mark: u64,
    // statistics
    ops_run: u64,
    op_counts: HashMap<&'static str, u64>,
    kind_counts: HashMap<&'static str, u64>,
    crashes: u64,
    sends: u64,
    recvs: u64,
    last_drop_by_other_thread: u64,
    max_shared: i64,
    answers_checked: u64,
    answers_specified: u64,
    answers_golden: u64,
    eq_checked: u64,
    mem_checks: u64,
    fp: Fnv,
    /// Identity of heap zones: the handle's pointer bits -> zone instance.
    bits: HashMap<usize, u32>,
    /// Zones whose handle count changed since the last memory check.
    dirty: Vec<u32>,
    api_panics: u64,
    interior_reallocs: u64,
    api_panic_sample: Option<String>,
    last_spec: HashMap<u8, Spec>,
    /// The database over the run's small zoneinfo directory, and which zone
    /// instance its cache currently holds for each name.
    db: Option<jiff::tz::TimeZoneDatabase>,
    db_dir: std::path::PathBuf,
    db_cached: HashMap<u8, u32>,
    /// (block address, allocation serial) -> zone instance, for zones that
    /// came out of the database.
    db_blocks: HashMap<(usize, u64), u32>,
    db_mtime: u64,
    db_gets: u64,
    /// `Spec::System` handles that were the stand-in zone (no unnamed system zone available).
    system_standins: u64,
    side_allocs_outliving: u64,
    db_paths: [u64; 11],
    /// Name -> instance the *global* database (`jiff::tz::db()`) caches.
    gdb_cached: HashMap<u8, u32>,
}

// Every simulated thread is a real OS thread (so that thread-local state
// inside jiff, if any, is per simulated thread), but only the thread holding
// the baton runs; the run state is therefore never contended.
static RUN: Mutex<Option<Run>> = Mutex::new(None);

fn with_run<R>(f: impl FnOnce(&mut Run) -> R) -> R {
    let mut g = RUN.lock().unwrap_or_else(|e| e.into_inner());
    f(g.as_mut().expect("no c20 run"))
}

fn aborting() -> bool {
    let g = RUN.lock().unwrap_or_else(|e| e.into_inner());
    g.as_ref().map_or(true, |r| r.abort)
}

// ---------------------------------------------------------------------------
// The scheduler: a baton passed between real threads at operation boundaries.
// Every hand-over is decided by the run's PRNG (or the recorded choice list)
// and recorded.
// ---------------------------------------------------------------------------

struct BatonState {
    current: usize,
    done: Vec<bool>,
    policy: Policy,
    rng: Rng,
    replay: Vec<u16>,
    pos: usize,
    choices: Vec<u16>,
    steps: u64,
    switches: u64,
    prio: Vec<u64>,
    low: u64,
    points: Vec<u64>,
}

struct Baton {
    m: Mutex<BatonState>,
    cv: Condvar,
}

const NOBODY: usize = usize::MAX;

impl Baton {
    fn new(n: usize, sched: &SchedSpec) -> Baton {
        let mut rng = Rng::new(sched.seed);
        let policy = sched.policy();
        let mut points = vec![];
        if let Policy::Pct { depth, est_len } = policy {
            for _ in 1..depth {
                points.push(rng.below(est_len.max(1) as u64));
            }
        }
        let prio = (0..n).map(|_| (1 << 32) + (rng.next_u64() >> 32)).collect();
        Baton {
            m: Mutex::new(BatonState {
                current: NOBODY,
                done: vec![false; n],
                policy,
                rng,
                replay: sched.choices.clone(),
                pos: 0,
                choices: vec![],
                steps: 0,
                switches: 0,
                prio,
                low: 1 << 20,
                points,
            }),
            cv: Condvar::new(),
        }
    }

    /// Decides who runs next (called by the thread holding the baton, or by
    /// the main thread to start). `None`: everybody is done.
    fn pick(st: &mut BatonState, me: Option<usize>) -> Option<usize> {
        let runnable: Vec<usize> = (0..st.done.len()).filter(|&i| !st.done[i]).collect();
        if runnable.is_empty() {
            return None;
        }
        st.steps += 1;
        let me_ok = me.map_or(false, |m| runnable.contains(&m));
        let choice = match st.policy {
            Policy::Random { stick } => {
                if me_ok && stick > 0 && st.rng.below(16) < stick as u64 {
                    me.unwrap()
                } else {
                    *st.rng.pick(&runnable)
                }
            }
            Policy::Pct { .. } => {
                if let Some(m) = me {
                    if st.points.contains(&st.steps) {
                        st.low -= 1;
                        st.prio[m] = st.low;
                    }
                }
                *runnable.iter().max_by_key(|&&i| st.prio[i]).unwrap()
            }
            Policy::Replay => {
                let want = st.replay.get(st.pos).copied();
                st.pos += 1;
                match want {
                    Some(w) if runnable.contains(&(w as usize)) => w as usize,
                    _ if me_ok => me.unwrap(),
                    _ => runnable[0],
                }
            }
        };
        if Some(choice) != me {
            st.switches += 1;
        }
        st.choices.push(choice as u16);
        Some(choice)
    }

    fn wait_turn(&self, me: usize) {
        let mut st = self.m.lock().unwrap_or_else(|e| e.into_inner());
        while st.current != me {
            st = self.cv.wait(st).unwrap_or_else(|e| e.into_inner());
        }
    }

    /// Hands the baton on after one operation (`finished`: this thread has
    /// no more operations). Returns true if this thread keeps the baton.
    fn pass(&self, me: usize, finished: bool) -> bool {
        let mut st = self.m.lock().unwrap_or_else(|e| e.into_inner());
        if finished {
            st.done[me] = true;
        }
        match Baton::pick(&mut st, Some(me)) {
            Some(next) if next == me => true,
            Some(next) => {
                st.current = next;
                self.cv.notify_all();
                false
            }
            None => {
                st.current = NOBODY;
                self.cv.notify_all();
                false
            }
        }
    }

    fn start(&self) {
        let mut st = self.m.lock().unwrap_or_else(|e| e.into_inner());
        if let Some(first) = Baton::pick(&mut st, None) {
            st.current = first;
        }
        self.cv.notify_all();
    }
}

fn violate(clause: &str, detail: String) {
    // A violation message may quote garbage read from freed memory.
    let detail = String::from_utf8_lossy(detail.as_bytes()).into_owned();
    with_run(|r| {
        r.violations.push(Violation { clause: clause.to_string(), detail });
        r.abort = true;
    });
}

/// Slots of one thread. If the run is being aborted because of a memory
/// violation, the values are leaked instead of dropped (dropping them could
/// touch freed memory).
struct SlotBox(Slots);

impl Drop for SlotBox {
    fn drop(&mut self) {
        let slots = std::mem::take(&mut self.0);
        if aborting() {
            std::mem::forget(slots);
        } else {
            // Normal end or crash unwinding: really drop, and tell the model.
            // Check after every single drop, so that a premature free is
            // reported before the next drop would touch freed memory.
            let mut it = slots.into_iter().flatten();
            while let Some(s) = it.next() {
                let zone = s.zone;
                let counted = s.val.has_handle();
                drop(s);
                if !counted {
                    continue;
                }
                NativeEnv.handles(zone, -1);
                check_memory("dropping a thread's values");
                if aborting() {
                    std::mem::forget(it);
                    break;
                }
            }
        }
    }
}

struct NativeEnv;

impl NativeEnv {
    fn new_zone(&mut self, spec: &Spec, reference: bool) -> u32 {
        // Close the recording window before the harness allocates anything.
        let zone = with_run(|r| r.zones.len() as u32);
        let fp = alloc::record_finish(zone);
        with_run(|r| {
            r.zones.push(ZoneModel {
                spec: spec.clone(),
                handles: 0,
                footprint: fp,
                reference,
                arc_block: None,
                pinned: matches!(spec, Spec::System),
            })
        });
        if !spec.heap() && fp != 0 {
            violate(
                "unexpected_alloc",
                format!("creating {spec:?} left {} allocation(s) live", fp),
            );
        }
        // (A system zone created by an earlier run is still in jiff's cache.)
        if spec.heap() && fp == 0 && !matches!(spec, Spec::System) {
            violate(
                "harness_model",
                format!("creating {spec:?} allocated nothing"),
            );
        }
        zone
    }
}

impl NativeEnv {
    /// Registers the zone behind a freshly constructed handle and returns
    /// its instance id.
    fn register(&mut self, spec: &Spec, tz: &TimeZone, reference: bool) -> u32 {
        if spec.heap() {
            // A `TimeZone` is one word: use it as an identity token only.
            assert_eq!(std::mem::size_of::<TimeZone>(), std::mem::size_of::<usize>());
            let bits: usize = unsafe { std::mem::transmute_copy(tz) };
            let known = with_run(|r| r.bits.get(&bits).copied());
            if let Some(z0) = known {
                // Did this constructor allocate anything that is still live?
                // If not, it handed out another handle to an existing zone
                // (an implementation may legitimately share allocations).
                let fresh = alloc::record_peek_live();
                if fresh == 0 {
                    alloc::record_discard();
                    let (handles, spec0, pinned) = with_run(|r| {
                        let z = &r.zones[z0 as usize];
                        (z.handles, z.spec.clone(), z.pinned)
                    });
                    // (A pinned zone is kept alive by its outside holder
                    // even when the program holds no handle.)
                    if handles <= 0 && !pinned {
                        violate(
                            "use_after_free",
                            format!(
                                "creating {spec:?} returned a handle to the memory of zone #{z0} ({spec0:?}), which was already freed"
                            ),
                        );
                    }
                    return z0;
                }
            }
            let z = self.new_zone(spec, reference);
            let addr = (bits & !7usize).wrapping_sub(16);
            let block = alloc::live_at(addr).map(|l| (addr, l.1));
            with_run(|r| {
                r.bits.insert(bits, z);
                r.zones[z as usize].arc_block = block;
            });
            return z;
        }
        self.new_zone(spec, reference)
    }
}

impl Env for NativeEnv {
    fn pre_new(&mut self, _spec: &Spec) {
        alloc::record_start();
    }

    fn post_new(&mut self, spec: &Spec, tz: &TimeZone) -> u32 {
        if matches!(spec, Spec::System) && tz.iana_name().is_some() {
            with_run(|r| r.system_standins += 1);
        }
        // Nothing may allocate before the recording window is closed.
        let z = self.register(spec, tz, false);
        with_run(|r| *r.kind_counts.entry(spec.kind_name()).or_default() += 1);
        z
    }

    fn handles(&mut self, zone: u32, delta: i32) {
        with_run(|r| {
            if !r.dirty.contains(&zone) {
                r.dirty.push(zone);
            }
            let z = &mut r.zones[zone as usize];
            z.handles += delta as i64;
            if z.handles > r.max_shared && z.spec.heap() {
                r.max_shared = z.handles;
            }
        });
    }

    fn check_answer(&mut self, spec: &Spec, q: u8, t: u8, got: String) {
        let key = (spec.clone(), q, t);
        let cached = with_run(|r| r.ref_answers.get(&key).cloned());
        let want = match cached {
            Some(w) => w,
            None => {
                // The reference handle: created once per spec, never cloned
                // or dropped until the run ends.
                let have = with_run(|r| r.refs.contains_key(spec));
                if !have {
                    alloc::record_start();
                    let tz = interp::make_tz(spec);
                    let zone = self.register(spec, &tz, true);
                    self.handles(zone, 1);
                    with_run(|r| r.refs.insert(spec.clone(), (tz, zone)));
                }
                let w = with_run(|r| interp::answer(&r.refs[spec].0, q, t));
                with_run(|r| r.ref_answers.insert(key, w.clone()));
                w
            }
        };
        with_run(|r| r.answers_checked += 1);
        if want != got {
            violate(
                "answer",
                format!("query {q} at instant {t} on a {spec:?} handle returned {got:?}, reference says {want:?}"),
            );
            return;
        }
        if let Some(w) = golden::specified(spec, q, t) {
            with_run(|r| r.answers_specified += 1);
            if w != got {
                violate(
                    "answer_specified",
                    format!("query {q} at instant {t} on a {spec:?} handle returned {got:?}, documented behaviour is {w:?}"),
                );
                return;
            }
        }
        if let Some(w) = golden::recorded(spec, q, t) {
            with_run(|r| r.answers_golden += 1);
            if w != got {
                violate(
                    "answer_golden",
                    format!("query {q} at instant {t} on a {spec:?} handle returned {got:?}, the recorded answer of the pinned tree is {w:?}"),
                );
            }
        }
    }

    fn eq_result(&mut self, a: (&Spec, u32), b: (&Spec, u32), ab: bool, ba: bool) {
        with_run(|r| r.eq_checked += 1);
        if ab != ba {
            violate("eq_symmetric", format!("{:?} == {:?} is {ab} but the reverse is {ba}", a.0, b.0));
            return;
        }
        if a.1 == b.1 && !ab {
            violate("eq_same_zone", format!("two handles of one {:?} zone compare unequal", a.0));
            return;
        }
        if a.0.class() == b.0.class() {
            let want = a.0.canon() == b.0.canon();
            if ab != want {
                violate(
                    "eq_value",
                    format!("{:?} == {:?} is {ab}, expected {want}", a.0, b.0),
                );
                return;
            }
        }
        // Stable: the same two zones always compare the same way.
        let key = (a.1.min(b.1), a.1.max(b.1));
        let prev = with_run(|r| r.eq_seen.insert(key, ab));
        if let Some(p) = prev {
            if p != ab {
                violate("eq_stable", format!("{:?} == {:?} changed from {p} to {ab}", a.0, b.0));
            }
        }
    }

    fn fail(&mut self, clause: &'static str, detail: String) {
        violate(clause, detail);
    }

    fn send(&mut self, to: u8, slot: Slot) {
        with_run(|r| {
            r.sends += 1;
            let n = r.chans.len();
            r.chans[to as usize % n].push_back(slot);
        });
    }

    fn recv(&mut self, me: u8) -> Option<Slot> {
        with_run(|r| {
            let n = r.chans.len();
            let v = r.chans[me as usize % n].pop_front();
            if v.is_some() {
                r.recvs += 1;
            }
            v
        })
    }

    fn swap_shared(&mut self, slot: Option<Slot>) -> Option<Slot> {
        with_run(|r| std::mem::replace(&mut r.shared, slot))
    }

    fn checkpoint(&mut self, what: &'static str) -> bool {
        check_memory(what);
        !aborting()
    }

    fn api_panic(&mut self, _api: &'static str) {
        let msg = sim::with_rt(|rt| rt.last_panic.take()).unwrap_or_default();
        with_run(|r| {
            r.api_panics += 1;
            if r.api_panic_sample.is_none() {
                r.api_panic_sample = Some(msg);
            }
        });
    }

    fn last_spec(&mut self, me: u8, set: Option<&Spec>) -> Option<Spec> {
        with_run(|r| match set {
            Some(s) => r.last_spec.insert(me, s.clone()),
            None => r.last_spec.get(&me).cloned(),
        })
    }

    fn db_get(&mut self, name: u8, case: u8) -> Option<(TimeZone, u32)> {
        let name = name % DB_NAMES.len() as u8;
        let db = with_run(|r| r.db.clone())?;
        let canonical = DB_NAMES[name as usize];
        let q = match case % 4 {
            0 => canonical.to_string(),
            1 => canonical.to_ascii_lowercase(),
            2 => canonical.to_ascii_uppercase(),
            _ => canonical
                .chars()
                .enumerate()
                .map(|(i, c)| if i % 2 == 0 { c.to_ascii_uppercase() } else { c.to_ascii_lowercase() })
                .collect(),
        };
        let how = (case / 4) % 11;
        let global = how >= 6;
        let tz = match db_lookup(&db, &q, how) {
            Ok(tz) => tz,
            Err(e) => {
                violate("answer", format!("database lookup of {q:?} (path {how}) failed: {e}"));
                return None;
            }
        };
        drop(db);
        with_run(|r| r.db_paths[how as usize] += 1);
        with_run(|r| r.db_gets += 1);
        assert_eq!(std::mem::size_of::<TimeZone>(), std::mem::size_of::<usize>());
        let bits: usize = unsafe { std::mem::transmute_copy(&tz) };
        if bits & 7 != 4 {
            violate("answer", format!("database lookup of {q:?} did not return a heap TZif zone"));
            std::mem::forget(tz);
            return None;
        }
        // The reference-counted block the handle points into.
        let addr = (bits & !7usize).wrapping_sub(16);
        let Some((_, serial)) = alloc::live_at(addr) else {
            violate(
                "use_after_free",
                format!("database lookup of {q:?} returned a handle into memory that is not allocated"),
            );
            std::mem::forget(tz);
            return None;
        };
        let known = with_run(|r| r.db_blocks.get(&(addr, serial)).copied());
        let zone = match known {
            Some(z) => z,
            None => {
                // A new instance: the cache holds one handle of it.
                let z = with_run(|r| {
                    r.zones.push(ZoneModel {
                        spec: Spec::Db(name),
                        handles: 1,
                        footprint: 1,
                        reference: false,
                        arc_block: Some((addr, serial)),
                        pinned: false,
                    });
                    (r.zones.len() - 1) as u32
                });
                alloc::watch_addr(z, addr);
                with_run(|r| {
                    r.db_blocks.insert((addr, serial), z);
                    *r.kind_counts.entry("from_database").or_default() += 1;
                });
                z
            }
        };
        // If the cache now holds another instance for this name than before,
        // it dropped its handle of the old one.
        let old = with_run(|r| {
            if global { r.gdb_cached.insert(name, zone) } else { r.db_cached.insert(name, zone) }
        });
        if let Some(old) = old {
            if old != zone {
                self.handles(old, -1);
            }
        }
        Some((tz, zone))
    }

    fn db_reset(&mut self) {
        let Some(db) = with_run(|r| r.db.clone()) else { return };
        db.reset();
        drop(db);
        let cached = with_run(|r| std::mem::take(&mut r.db_cached));
        for (_, z) in cached {
            self.handles(z, -1);
        }
        // ... and the global one.
        jiff::tz::db().reset();
        let cached = with_run(|r| std::mem::take(&mut r.gdb_cached));
        for (_, z) in cached {
            self.handles(z, -1);
        }
    }

    fn db_advance(&mut self, step: u8) {
        if with_run(|r| r.db.is_none()) {
            return;
        }
        const TTL: u64 = 300 * 1_000_000_000;
        sim::advance_clock(match step % 4 {
            0 => TTL + 1,
            1 => TTL,
            2 => 1,
            _ => TTL / 2 + 1,
        });
    }

    fn db_touch(&mut self, name: u8) {
        let name = name as usize % DB_NAMES.len();
        let (dir, n) = with_run(|r| {
            r.db_mtime += 1;
            (r.db_dir.clone(), r.db_mtime)
        });
        if with_run(|r| r.db.is_some()) {
            set_mtime(&dir.join(DB_NAMES[name]), n);
            if let Some(g) = GLOBAL_DB_DIR.get() {
                set_mtime(&g.join(DB_NAMES[name]), n);
            }
        }
    }

    fn no_alloc_begin(&mut self) {
        let a = alloc::my_allocs();
        with_run(|r| r.no_alloc_mark = a);
    }

    fn no_alloc_end(&mut self, what: &'static str) {
        let a = alloc::my_allocs();
        let mark = with_run(|r| r.no_alloc_mark);
        if a != mark {
            violate("unexpected_alloc", format!("{what} allocated {} time(s)", a - mark));
        }
    }
}

/// One lookup of `q` in `db`: directly, or through each public API that takes
/// a database and hands the handle on (the intermediate `Zoned` or pieces are
/// dropped here, so only the returned handle stays counted).
fn db_lookup(db: &TimeZoneDatabase, q: &str, how: u8) -> Result<TimeZone, String> {
    use jiff::fmt::{strtime, temporal};
    static PARSER: temporal::DateTimeParser = temporal::DateTimeParser::new();
    let e = |e: jiff::Error| e.to_string();
    match how {
        0 | 1 => db.get(q).map_err(e),
        2 => PARSER.parse_time_zone_with(db, q).map_err(e),
        3 => {
            let z = PARSER.parse_zoned_with(db, format!("2024-06-15T12:00:00[{q}]")).map_err(e)?;
            let tz = z.time_zone().clone();
            drop(z);
            Ok(tz)
        }
        4 => {
            let text = format!("2024-06-15T12:00:00[{q}]");
            let pieces = temporal::Pieces::parse(&text).map_err(e)?;
            pieces
                .to_time_zone_with(db)
                .map_err(e)?
                .ok_or_else(|| "no time zone annotation".to_string())
        }
        5 => {
            let tm = strtime::parse("%Y-%m-%d %H:%M %Q", format!("2024-06-15 12:00 {q}")).map_err(e)?;
            let z = tm.to_zoned_with(db).map_err(e)?;
            let tz = z.time_zone().clone();
            drop(z);
            Ok(tz)
        }
        // The APIs that go through the process-global database
        // (`jiff::tz::db()`, here a zoneinfo database over a private copy of
        // the same files, selected with `TZDIR`).
        6 => TimeZone::get(q).map_err(e),
        how => {
            let ts = jiff::Timestamp::from_second(1_718_452_800).unwrap();
            let z: jiff::Zoned = match how {
                7 => ts.in_tz(q).map_err(e)?,
                8 => format!("2024-06-15T12:00:00[{q}]").parse().map_err(e)?,
                9 => jiff::civil::date(2024, 6, 15).at(12, 0, 0, 0).in_tz(q).map_err(e)?,
                _ => jiff::Zoned::strptime("%Y-%m-%d %H:%M %Q", format!("2024-06-15 12:00 {q}"))
                    .map_err(e)?,
            };
            let tz = z.time_zone().clone();
            drop(z);
            Ok(tz)
        }
    }
}

/// Points `TZ` at a TZif file outside any `zoneinfo/` directory (once per
/// process, before jiff's system-zone detection first runs), so that
/// `TimeZone::system()` is an unnamed heap TZif zone; also fixes `TZDIR`,
/// because detecting the system zone initialises the global database.
fn system_zone_setup(per_run_dir: &std::path::Path) {
    static DONE: std::sync::Once = std::sync::Once::new();
    DONE.call_once(|| {
        let dir = per_run_dir.with_file_name("c20sys");
        let _ = std::fs::create_dir_all(&dir);
        let (rule, so, sa, d_o, da) = FOOTERS[1];
        let file = dir.join("localzone");
        let _ = std::fs::write(&file, crate::zonegen::synth_tzif_footer(rule, so, sa, d_o, da));
        if let Err(e) = global_db_files(per_run_dir) {
            eprintln!("[jiffsim] global database setup: {e}");
        }
        // Only this thread exists in the process at this point.
        std::env::set_var("TZ", &file);
        // jiff caches the system zone for five minutes of its monotonic clock
        // and offers no way to reset that cache. So that what a run sees does
        // not depend on what earlier runs of this process did to the clock,
        // the zone is detected once, now, under a simulated clock fifty years
        // ahead: the cached entry then outlives every run (simulated clocks
        // restart at zero, the real one never gets there).
        sim::init_once();
        sim::with_rt(|rt| {
            rt.reset(Policy::Random { stick: 0 }, 0, vec![]);
            rt.max_steps = u64::MAX;
        });
        sim::advance_clock(50 * 365 * 86_400 * 1_000_000_000);
        let _ = TimeZone::try_system();
        sim::with_rt(|rt| rt.active = false);
    });
}

/// The directory the process-global database reads (set up once per worker
/// process, before jiff's global database is first touched).
static GLOBAL_DB_DIR: std::sync::OnceLock<std::path::PathBuf> = std::sync::OnceLock::new();

fn global_db_files(per_run_dir: &std::path::Path) -> Result<(), String> {
    if GLOBAL_DB_DIR.get().is_none() {
        let dir = per_run_dir.with_file_name("c20gdb");
        let _ = std::fs::remove_dir_all(&dir);
        for (i, name) in DB_NAMES.iter().enumerate() {
            let p = dir.join(name);
            if let Some(parent) = p.parent() {
                std::fs::create_dir_all(parent).map_err(|e| e.to_string())?;
            }
            std::fs::write(&p, interp::db_zone_bytes(i)).map_err(|e| e.to_string())?;
        }
        // Only this thread exists in the worker at this point.
        std::env::set_var("TZDIR", &dir);
        let _ = GLOBAL_DB_DIR.set(dir);
        if jiff::tz::db().get(DB_NAMES[0]).is_err() {
            return Err("the global database does not read the private TZDIR".into());
        }
    }
    Ok(())
}

fn global_db_setup(per_run_dir: &std::path::Path) -> Result<(), String> {
    global_db_files(per_run_dir)?;
    // Every run starts with the same files and an empty global cache.
    let dir = GLOBAL_DB_DIR.get().unwrap();
    for (i, name) in DB_NAMES.iter().enumerate() {
        set_mtime(&dir.join(name), i as u64 + 1);
    }
    jiff::tz::db().reset();
    Ok(())
}

/// The memory model, checked after every operation.
fn check_memory_full(after: &str) {
    check_memory_impl(after, true)
}

fn check_memory(after: &str) {
    check_memory_impl(after, false)
}

fn check_memory_impl(after: &str, full: bool) {
    for ev in alloc::take_events().into_iter().flatten() {
        match ev {
            alloc::MemEvent::DoubleFree { zone, .. } => {
                let spec = with_run(|r| r.zones.get(zone as usize).map(|z| z.spec.clone()));
                violate(
                    "double_free",
                    format!("memory of zone #{zone} ({spec:?}) was freed twice (during {after})"),
                );
            }
        }
    }
    // Zones whose handle count changed in this operation are checked every
    // time; all zones at thread exits and at the end of the run.
    let list: Vec<usize> = with_run(|r| {
        r.mem_checks += 1;
        let d = std::mem::take(&mut r.dirty);
        if full {
            (0..r.zones.len()).collect()
        } else {
            d.into_iter().map(|z| z as usize).collect()
        }
    });
    for z in list {
        let (handles, spec, footprint) = with_run(|r| {
            let m = &r.zones[z];
            (m.handles, m.spec.clone(), m.footprint)
        });
        let (live, freed) = alloc::zone_status(z as u32);
        if handles < 0 {
            violate("harness_model", format!("handle count of zone #{z} is {handles}"));
        } else if handles > 0 && freed > 0 {
            // Interior buffers of a zone may legitimately be replaced while
            // handles exist (a lazily completed table behind a lock, say);
            // what must not go while a handle exists is the block the handles
            // point into. If that block is unknown, any early free counts.
            let block = with_run(|r| r.zones[z].arc_block);
            let block_gone = match block {
                Some((addr, serial)) => alloc::live_at(addr).map(|l| l.1) != Some(serial),
                None => true,
            };
            if block_gone {
                violate(
                    "premature_free",
                    format!(
                        "{freed} of {footprint} allocation(s) of zone #{z} ({spec:?}) were freed while {handles} handle(s) are still alive (after {after})"
                    ),
                );
            } else {
                with_run(|r| r.interior_reallocs += 1);
            }
        } else if handles == 0 && live > 0 && !with_run(|r| r.zones[z].pinned) {
            // What must go with the last handle is the zone: the block the
            // handles pointed into. Other allocations made while the zone was
            // created may belong to something shared and longer-lived (a node
            // of an interning table, say); they only count when that block
            // is unknown.
            let block = with_run(|r| r.zones[z].arc_block);
            if let Some((addr, serial)) = block {
                if alloc::live_at(addr).map(|l| l.1) != Some(serial) {
                    with_run(|r| r.side_allocs_outliving += 1);
                    continue;
                }
            }
            violate(
                "leak",
                format!(
                    "{live} of {footprint} allocation(s) of zone #{z} ({spec:?}) are still allocated although its last handle is gone (after {after})"
                ),
            );
        }
    }
}

struct CrashMarker;

fn thread_main(me: u8, ops: Vec<Op>, baton: Arc<Baton>) {
    let idx = me as usize;
    let r = std::panic::catch_unwind(std::panic::AssertUnwindSafe(|| {
        // Per-thread lazy initialisation (std / jiff thread-locals) must not
        // be attributed to the first zone this thread creates.
        thread_warm_up();
        let mut slots = SlotBox((0..SLOTS).map(|_| None).collect());
        let mut env = NativeEnv;
        let mut have_baton = false;
        for (i, op) in ops.iter().enumerate() {
            if !have_baton {
                baton.wait_turn(idx);
                have_baton = true;
            }
            if aborting() {
                return;
            }
            let crash = interp::apply(me, op, &mut slots.0, &mut env);
            with_run(|r| {
                r.ops_run += 1;
                *r.op_counts.entry(op.name()).or_default() += 1;
                r.fp.byte(me);
                r.fp.bytes(op.name().as_bytes());
                if r.want_log {
                    r.log.push(json!({"thread": me, "index": i, "op": format!("{op:?}")}));
                }
            });
            check_memory(op.name());
            if aborting() {
                return;
            }
            if crash {
                with_run(|r| r.crashes += 1);
                std::panic::panic_any(CrashMarker);
            }
            if i + 1 < ops.len() {
                have_baton = baton.pass(idx, false);
            }
        }
        if !have_baton {
            // No operations at all: still take a turn to finish.
            baton.wait_turn(idx);
        }
        // The thread ends holding the baton: its slots are dropped now.
    }));
    if let Err(p) = r {
        if p.is::<CrashMarker>() {
            // Unwinding dropped every handle the thread owned.
            if !aborting() {
                check_memory_full("crash unwinding");
            }
        } else {
            let msg = sim::with_rt(|rt| rt.last_panic.take())
                .unwrap_or_else(|| sim::panic_message(&*p));
            violate("panic", format!("thread {me} panicked: {msg}"));
        }
    } else if !aborting() {
        check_memory_full("thread exit");
    }
    baton.pass(idx, true);
}

struct SchedOutcome {
    choices: Vec<u16>,
    steps: u64,
    switches: u64,
}

fn uses_db(case: &Case) -> bool {
    case.threads
        .iter()
        .flatten()
        .any(|op| matches!(op, Op::DbGet { .. } | Op::DbReset | Op::DbTouch { .. }))
}

fn set_mtime(path: &std::path::Path, n: u64) {
    let t = std::time::SystemTime::UNIX_EPOCH
        + std::time::Duration::new(1_650_000_000 + (n * 7919) % 100_003, n as u32);
    if let Ok(f) = std::fs::OpenOptions::new().write(true).open(path) {
        let _ = f.set_modified(t);
    }
}

/// Creates the small zoneinfo directory and opens the database over it.
fn db_setup(dir: &std::path::Path) -> Result<jiff::tz::TimeZoneDatabase, String> {
    let _ = std::fs::remove_dir_all(dir);
    for (i, name) in DB_NAMES.iter().enumerate() {
        let p = dir.join(name);
        if let Some(parent) = p.parent() {
            std::fs::create_dir_all(parent).map_err(|e| e.to_string())?;
        }
        std::fs::write(&p, interp::db_zone_bytes(i)).map_err(|e| e.to_string())?;
        set_mtime(&p, i as u64 + 1);
    }
    jiff::tz::TimeZoneDatabase::from_dir(dir).map_err(|e| e.to_string())
}

fn run_case(
    case: Arc<Case>,
    sched: &SchedSpec,
    want_log: bool,
    db_dir: std::path::PathBuf,
) -> SchedOutcome {
    system_zone_setup(&db_dir);
    alloc::reset_watches();
    alloc::set_poison(case.poison_freed_memory);
    {
        let mut g = RUN.lock().unwrap_or_else(|e| e.into_inner());
        *g = Some(Run {
            zones: vec![],
            refs: HashMap::new(),
            ref_answers: HashMap::new(),
            eq_seen: HashMap::new(),
            chans: (0..case.threads.len()).map(|_| VecDeque::new()).collect(),
            shared: None,
            violations: vec![],
            abort: false,
            log: vec![],
            want_log,
            no_alloc_mark: 0,
            ops_run: 0,
            op_counts: HashMap::new(),
            kind_counts: HashMap::new(),
            crashes: 0,
            sends: 0,
            recvs: 0,
            last_drop_by_other_thread: 0,
            max_shared: 0,
            answers_checked: 0,
            answers_specified: 0,
            answers_golden: 0,
            eq_checked: 0,
            mem_checks: 0,
            fp: Fnv::new(),
            bits: HashMap::new(),
            dirty: vec![],
            api_panics: 0,
            interior_reallocs: 0,
            api_panic_sample: None,
            last_spec: HashMap::new(),
            db: None,
            db_dir: db_dir.clone(),
            db_cached: HashMap::new(),
            db_blocks: HashMap::new(),
            db_mtime: 0,
            db_gets: 0,
            system_standins: 0,
            side_allocs_outliving: 0,
            db_paths: [0; 11],
            gdb_cached: HashMap::new(),
        });
    }
    if uses_db(&case) {
        // The simulated monotonic clock (jiff's TTLs) starts at zero; the
        // scheduling hooks inside the database code are no-ops here because
        // only the baton holder runs.
        sim::init_once();
        sim::with_rt(|rt| {
            rt.reset(Policy::Random { stick: 0 }, 0, vec![]);
            rt.max_steps = u64::MAX;
        });
        match db_setup(&db_dir).and_then(|db| global_db_setup(&db_dir).map(|_| db)) {
            Ok(db) => with_run(|r| {
                r.db = Some(db);
                r.db_mtime = 10;
            }),
            Err(e) => violate("harness_model", format!("database setup: {e}")),
        }
    }
    let baton = Arc::new(Baton::new(case.threads.len(), sched));
    let mut joins = vec![];
    for (i, ops) in case.threads.iter().enumerate() {
        let ops = ops.clone();
        let me = i as u8;
        let b = baton.clone();
        joins.push(
            std::thread::Builder::new()
                .stack_size(512 << 10)
                .spawn(move || thread_main(me, ops, b))
                .expect("spawn simulated thread"),
        );
    }
    baton.start();
    for j in joins {
        let _ = j.join();
    }
    let sched_out = {
        let st = baton.m.lock().unwrap_or_else(|e| e.into_inner());
        SchedOutcome { choices: st.choices.clone(), steps: st.steps, switches: st.switches }
    };
    // Everything still in flight or held by the harness goes now.
    let (chans, shared, refs) = with_run(|r| {
        (
            std::mem::take(&mut r.chans),
            r.shared.take(),
            std::mem::take(&mut r.refs),
        )
    });
    if aborting() {
        std::mem::forget((chans, shared, refs));
        std::mem::forget(with_run(|r| r.db.take()));
        sim::with_rt(|rt| rt.active = false);
        return sched_out;
    }
    let mut env = NativeEnv;
    let mut rest: Vec<Slot> = chans.into_iter().flatten().collect();
    rest.extend(shared);
    let mut it = rest.into_iter();
    while let Some(s) = it.next() {
        let zone = s.zone;
        let counted = s.val.has_handle();
        drop(s);
        if !counted {
            continue;
        }
        env.handles(zone, -1);
        check_memory("draining channels");
        if aborting() {
            std::mem::forget((it, refs));
            return sched_out;
        }
    }
    let mut it = refs.into_iter();
    while let Some((_, (tz, zone))) = it.next() {
        drop(tz);
        env.handles(zone, -1);
        check_memory("dropping reference handles");
        if aborting() {
            std::mem::forget(it);
            return sched_out;
        }
    }
    // The database goes last: its cache releases the handles it still holds.
    let (db, cached) = with_run(|r| (r.db.take(), std::mem::take(&mut r.db_cached)));
    if let Some(db) = db {
        drop(db);
        for (_, z) in cached {
            env.handles(z, -1);
        }
        jiff::tz::db().reset();
        for (_, z) in with_run(|r| std::mem::take(&mut r.gdb_cached)) {
            env.handles(z, -1);
        }
        sim::with_rt(|rt| rt.active = false);
        let _ = std::fs::remove_dir_all(&db_dir);
    }
    check_memory_full("end of run");
    // End of run: nothing may be left.
    let leftover: Vec<(usize, i64)> = with_run(|r| {
        r.zones
            .iter()
            .enumerate()
            .filter(|(_, z)| z.handles != 0)
            .map(|(i, z)| (i, z.handles))
            .collect()
    });
    if !leftover.is_empty() && !aborting() {
        violate("harness_model", format!("handles left at end of run: {leftover:?}"));
    }
    let _ = with_run(|r| r.zones.iter().filter(|z| z.reference).count());
    sched_out
}

/// All 187,199 fixed offsets: create, clone, query, compare with the
/// neighbour, drop; nothing may allocate. Deterministic; run once per batch.
pub fn fixed_sweep() -> Result<u64, Violation> {
    let a0 = alloc::my_allocs();
    let ts = interp::instant(3);
    let mut n = 0u64;
    let mut prev: Option<TimeZone> = None;
    for s in -93_599..=93_599i32 {
        let s = std::hint::black_box(s);
        let off = Offset::from_seconds(s).unwrap();
        let tz = TimeZone::fixed(off);
        let c = tz.clone();
        let bad = |what: &str| Violation {
            clause: "fixed_offset".into(),
            detail: format!("fixed offset {s} s: {what}"),
        };
        if tz.to_offset(ts).seconds() != s {
            return Err(bad(&format!("to_offset returned {}", tz.to_offset(ts).seconds())));
        }
        match c.to_fixed_offset() {
            Ok(o) if o.seconds() == s => {}
            other => return Err(bad(&format!("to_fixed_offset returned {other:?}"))),
        }
        if !(tz == c && c == tz) {
            return Err(bad("clone compares unequal"));
        }
        if let Some(ref p) = prev {
            if p == &tz || &tz == p {
                return Err(bad("compares equal to its neighbour"));
            }
        }
        if (s == 0) != (tz == TimeZone::UTC) {
            return Err(bad("comparison with UTC is wrong"));
        }
        let z = ts.to_zoned(c);
        if z.offset().seconds() != s {
            return Err(bad("Zoned offset differs"));
        }
        drop(z);
        prev = Some(tz);
        n += 1;
    }
    drop(prev);
    let a1 = alloc::my_allocs();
    // Second pass (may allocate): the abbreviation of a fixed-offset zone is
    // its offset, printed as sign, two-digit hours, then minutes and seconds
    // only as far as they are needed; `Zoned` reproduces the offset too.
    for s in -93_599..=93_599i32 {
        let s = std::hint::black_box(s);
        if s == 0 {
            continue;
        }
        let tz = TimeZone::fixed(Offset::from_seconds(s).unwrap());
        let a = s.unsigned_abs();
        let (h, m, sec) = (a / 3600, (a / 60) % 60, a % 60);
        let sign = if s < 0 { '-' } else { '+' };
        let want = if sec != 0 {
            format!("{sign}{h:02}:{m:02}:{sec:02}")
        } else if m != 0 {
            format!("{sign}{h:02}:{m:02}")
        } else {
            format!("{sign}{h:02}")
        };
        let info = tz.to_offset_info(ts);
        if info.abbreviation() != want || info.offset().seconds() != s {
            return Err(Violation {
                clause: "fixed_offset".into(),
                detail: format!(
                    "fixed offset {s} s: to_offset_info says offset {} abbreviation {:?}, expected {want:?}",
                    info.offset().seconds(),
                    info.abbreviation()
                ),
            });
        }
        if tz.iana_name().is_some() || tz.is_unknown() {
            return Err(Violation {
                clause: "fixed_offset".into(),
                detail: format!("fixed offset {s} s: has an IANA name or claims to be unknown"),
            });
        }
    }
    if a1 != a0 {
        return Err(Violation {
            clause: "unexpected_alloc".into(),
            detail: format!("the fixed-offset sweep allocated {} time(s)", a1 - a0),
        });
    }
    Ok(n)
}

/// One-time warm-up so that lazily initialised statics inside jiff or std
/// are not attributed to the first zone of the first run.
pub fn warm_up() {
    let mut r = Rng::new(1);
    for _ in 0..64 {
        let s = fresh_spec(&mut r);
        // The system zone needs the environment `run_case` sets up (and
        // touching it here would initialise jiff's global database early).
        if matches!(s, Spec::System) {
            continue;
        }
        let tz = interp::make_tz(&s);
        for q in 0..N_QUERIES {
            let _ = interp::answer(&tz, q, 3);
        }
    }
}

fn thread_warm_up() {
    // Runs before the thread first takes the baton, i.e. possibly while
    // another simulated thread executes an operation: use zones no program
    // can create, so that an implementation that shares equal zones
    // (interning) cannot hand a warm-up zone to a program.
    let zones = [
        TimeZone::posix("WRM7WDT,M3.2.0,M11.1.0").unwrap(),
        TimeZone::tzif("Warm/Up", &crate::zonegen::synth_tzif(86_000, true)).unwrap(),
        TimeZone::fixed(Offset::from_seconds(1).unwrap()),
    ];
    for tz in zones.iter() {
        let _ = interp::answer(tz, 1, 3);
        let _ = interp::answer(tz, 7, 3);
    }
}

pub struct C20;

impl Prop for C20 {
    type Case = Case;

    fn id(&self) -> &'static str {
        "C20"
    }

    fn generate(&self, rng: &mut Rng, tier: Tier, _run: u64) -> Case {
        generate(rng, tier == Tier::Thorough)
    }

    fn est_len(&self, case: &Case) -> u32 {
        case.threads.iter().map(|t| t.len() as u32 + 2).sum::<u32>() + 4
    }

    fn execute(
        &self,
        case: &Arc<Case>,
        sched: &SchedSpec,
        _ctx: &WorkerCtx,
        stats: Option<&mut Stats>,
        want_trace: bool,
    ) -> Outcome {
        static WARM: std::sync::Once = std::sync::Once::new();
        WARM.call_once(|| {
            warm_up();
            golden::load();
            alloc::enable();
        });
        sim::install_panic_hook();
        let out = run_case(case.clone(), sched, want_trace, _ctx.dir.join("c20db"));
        let run = RUN.lock().unwrap_or_else(|e| e.into_inner()).take();
        let mut harness_error: Option<String> = None;
        let Some(run) = run else {
            return Outcome {
                fingerprint: 0,
                nontrivial: false,
                violations: vec![],
                harness_error: harness_error.or(Some("no run state".into())),
                choices: out.choices,
                trace: Value::Null,
            };
        };
        let mut violations = vec![];
        for v in run.violations.iter() {
            if v.clause == "harness_model" {
                harness_error.get_or_insert(v.detail.clone());
            } else {
                violations.push(v.clone());
            }
        }
        let nontrivial = run.max_shared >= 2;
        if let Some(stats) = stats {
            stats.steps += out.steps;
            stats.switches += out.switches;
            stats.add("ops.executed", run.ops_run);
            for (k, v) in run.op_counts.iter() {
                stats.add(op_key(k), *v);
            }
            for (k, v) in run.kind_counts.iter() {
                stats.add(kind_key(k), *v);
            }
            stats.add("fault.thread_crash.injected", run.crashes);
            stats.add("handles.sent_between_threads", run.sends);
            stats.add("handles.received", run.recvs);
            stats.add("oracle.answers_checked", run.answers_checked);
            stats.add("oracle.answers_checked_against_documented_constants", run.answers_specified);
            stats.add("oracle.answers_checked_against_golden_table", run.answers_golden);
            stats.add("oracle.eq_checked", run.eq_checked);
            stats.add("database.lookups", run.db_gets);
            stats.add("zones.system_zone_was_a_named_standin", run.system_standins);
            stats.add("database.lookups_via.get", run.db_paths[0] + run.db_paths[1]);
            stats.add("database.lookups_via.parse_time_zone_with", run.db_paths[2]);
            stats.add("database.lookups_via.parse_zoned_with", run.db_paths[3]);
            stats.add("database.lookups_via.pieces_to_time_zone_with", run.db_paths[4]);
            stats.add("database.lookups_via.strtime_to_zoned_with", run.db_paths[5]);
            stats.add("database.global.lookups_via.TimeZone_get", run.db_paths[6]);
            stats.add("database.global.lookups_via.Timestamp_in_tz", run.db_paths[7]);
            stats.add("database.global.lookups_via.Zoned_from_str", run.db_paths[8]);
            stats.add("database.global.lookups_via.DateTime_in_tz", run.db_paths[9]);
            stats.add("database.global.lookups_via.Zoned_strptime", run.db_paths[10]);
            stats.add("ignored.zoned_arithmetic_api_panics", run.api_panics);
            stats.add("tolerated.interior_buffers_replaced_while_handles_live", run.interior_reallocs);
            stats.add("tolerated.side_allocations_outliving_their_zone", run.side_allocs_outliving);
            stats.add("oracle.memory_model_checks", run.mem_checks);
            stats.add("zones.instances", run.zones.len() as u64);
            stats.add(
                "zones.heap_instances",
                run.zones.iter().filter(|z| z.spec.heap()).count() as u64,
            );
            if nontrivial {
                stats.add("runs.heap_zone_shared_by_2plus_handles", 1);
            }
            if case.poison_freed_memory {
                stats.add("runs.with_freed_memory_poisoned", 1);
            }
            stats.add(
                match case.threads.len() {
                    1 => "threads.1",
                    2 => "threads.2",
                    3 => "threads.3",
                    _ => "threads.4",
                },
                1,
            );
            let _ = run.last_drop_by_other_thread;
        }
        let mut fp = run.fp;
        fp.u64(run.zones.len() as u64);
        let trace = if want_trace || !violations.is_empty() {
            json!({ "executed": run.log })
        } else {
            Value::Null
        };
        Outcome {
            fingerprint: fp.0,
            nontrivial,
            violations,
            harness_error,
            choices: out.choices,
            trace,
        }
    }

    fn worker_args(&self) -> Vec<String> {
        vec!["--prop".into(), "c20".into()]
    }

    fn isolate(&self) -> bool {
        true
    }

    fn size(&self, case: &Case) -> usize {
        case.threads.iter().map(|t| t.len() * 2 + 1).sum()
    }

    fn shrink(&self, case: &Case) -> Vec<Case> {
        let mut out = vec![];
        for t in 0..case.threads.len() {
            if case.threads.len() > 1 {
                let mut c = case.clone();
                c.threads[t].clear();
                out.push(c);
            }
        }
        for t in 0..case.threads.len() {
            let n = case.threads[t].len();
            if n >= 4 {
                let mut c = case.clone();
                c.threads[t].truncate(n / 2);
                out.push(c);
                let mut c = case.clone();
                c.threads[t].drain(..n / 2);
                out.push(c);
            }
            for i in (0..n).rev() {
                let mut c = case.clone();
                c.threads[t].remove(i);
                out.push(c);
            }
        }
        out
    }
}

fn op_key(k: &str) -> &'static str {
    macro_rules! m {
        ($($n:literal),*) => { match k { $($n => concat!("ops.", $n),)* _ => "ops.other" } };
    }
    m!(
        "new", "clone", "drop", "move", "eq", "query", "into_zoned", "zoned_add",
        "zoned_with_tz", "extract_tz", "to_ambiguous", "resolve", "send", "recv",
        "swap_shared", "crash", "new_again", "make_derived", "use_derived", "db_get", "db_reset", "db_advance", "db_touch", "zoned_make", "zoned_mutate", "zoned_compare", "zoned_pair",
        "zoned_sweep", "zoned_span_rel", "tz_make", "amb_op"
    )
}

fn kind_key(k: &str) -> &'static str {
    macro_rules! m {
        ($($n:literal),*) => { match k { $($n => concat!("zones.created.", $n),)* _ => "zones.created.other" } };
    }
    m!("utc", "unknown", "fixed", "posix", "tzif_real", "tzif_synth", "tzif_named", "tzif_footer_rule", "system_unnamed_tzif", "tzif_bundled", "from_database", "static")
}
