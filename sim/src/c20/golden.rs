//! Recorded answers ("golden table") for a fixed pool of zones, and
//! answers that are specified independently of any recording.
//!
//! The reference-handle oracle only detects answers that depend on a
//! handle's *history* (clones, drops, moves, crashes, other queries). A
//! change that makes a whole kind answer wrongly changes the reference
//! handle too. Two further oracles cover that:
//!
//! * `specified`: for UTC, `Etc/Unknown` and fixed offsets the answers are
//!   spelled out in jiff's documentation and are checked against constants;
//! * the golden table: for POSIX, TZif and static zones, the answers of the
//!   pinned tree (commit recorded in the file) to every semantic query at
//!   every probe instant. By construction it cannot flag the tree it was
//!   recorded from; it detects any later change of behaviour on this fixed
//!   data. `jiffsim c20-golden` regenerates it. `Debug` output (query 7) is
//!   excluded: it is presentation, not behaviour.

use std::collections::HashMap;
use std::sync::OnceLock;

use serde_json::{json, Value};

use crate::c20::interp;
use crate::c20::prog::*;

pub fn golden_specs() -> Vec<Spec> {
    let mut v = vec![Spec::Utc, Spec::Unknown];
    for s in [1, -1, 15, -15, 59, -59, 60, 3600, -3600, 19_800, 93_599, -93_599] {
        v.push(Spec::Fixed(s));
    }
    for i in 0..POSIX.len() {
        v.push(Spec::Posix(i as u8));
    }
    for i in 0..crate::zonegen::REAL_TZIF.len() {
        v.push(Spec::TzifReal(i as u8));
    }
    for k in 1..=50 {
        v.push(Spec::TzifSynth { k, tr: false });
        v.push(Spec::TzifSynth { k, tr: true });
    }
    for name in 0..2 {
        for k in 1..=3 {
            v.push(Spec::TzifNamed { name, k });
        }
    }
    for i in 0..FOOTERS.len() {
        v.push(Spec::TzifFooter(i as u8));
    }
    for i in 0..N_STATIC {
        v.push(Spec::Static(i));
        v.push(Spec::TzifBundled(i));
    }
    for i in 0..DB_NAMES.len() {
        v.push(Spec::Db(i as u8));
    }
    v
}

fn key(spec: &Spec) -> String {
    // Static twins share the recordings of the zone they both are.
    let spec = match spec {
        Spec::Static(_) => spec.canon(),
        s => s.clone(),
    };
    serde_json::to_string(&spec).unwrap()
}

/// A fingerprint of a zone's behaviour over a dense grid: offset, DST flag
/// and abbreviation every 6 hours 2023-2026 and every 45 days 1890-2110;
/// the classification (unambiguous / gap / fold, with offsets) of every
/// civil hour of 2024; 40 transitions forwards from 2000 and 40 backwards
/// from 2040.
pub fn digest(tz: &jiff::tz::TimeZone) -> u64 {
    use jiff::Timestamp;
    let mut h = crate::rng::Fnv::new();
    let mut probe = |s: i64| {
        let ts = Timestamp::from_second(s).unwrap();
        let info = tz.to_offset_info(ts);
        h.u64(info.offset().seconds() as u64);
        h.byte(matches!(info.dst(), jiff::tz::Dst::Yes) as u8);
        h.bytes(info.abbreviation().as_bytes());
        h.u64(tz.to_offset(ts).seconds() as u64);
    };
    let mut s = 1_672_531_200i64; // 2023-01-01
    while s < 1_798_761_600 {
        probe(s);
        s += 6 * 3600;
    }
    let mut s = -2_524_521_600i64; // 1890
    while s < 4_417_977_600 {
        probe(s);
        s += 45 * 86_400;
    }
    let mut dt = jiff::civil::DateTime::constant(2024, 1, 1, 0, 30, 0, 0);
    for _ in 0..(366 * 24) {
        let a = tz.to_ambiguous_timestamp(dt);
        h.bytes(format!("{:?}", a.offset()).as_bytes());
        dt = dt.checked_add(jiff::ToSpan::hours(1)).unwrap();
    }
    let from = Timestamp::from_second(946_684_800).unwrap();
    for tr in tz.following(from).take(40) {
        h.u64(tr.timestamp().as_second() as u64);
        h.u64(tr.offset().seconds() as u64);
        h.bytes(tr.abbreviation().as_bytes());
    }
    let from = Timestamp::from_second(2_208_988_800).unwrap();
    for tr in tz.preceding(from).take(40) {
        h.u64(tr.timestamp().as_second() as u64);
        h.u64(tr.offset().seconds() as u64);
        h.bytes(tr.abbreviation().as_bytes());
    }
    h.0
}

/// Internal consistency of one handle, independent of any recording: the
/// classification `to_ambiguous_timestamp(dt)` gives for a civil datetime
/// must agree with what `to_offset` says about the instants that could map
/// to it. With `valid(o)` meaning "the instant `dt - o` has offset `o`", and
/// the candidate offsets taken one day before and after: exactly one valid
/// offset = unambiguous with that offset, two = fold, none = gap.
pub fn ambiguity_consistent(tz: &jiff::tz::TimeZone) -> Result<usize, String> {
    use jiff::tz::{AmbiguousOffset, Offset};
    use jiff::Timestamp;
    let mut dt = jiff::civil::DateTime::constant(2024, 1, 1, 0, 15, 0, 0);
    let mut n = 0;
    for _ in 0..(366 * 48) {
        let as_utc = dt.to_zoned(jiff::tz::TimeZone::UTC).unwrap().timestamp().as_second();
        let at = |s: i64| Timestamp::from_second(s).map(|ts| tz.to_offset(ts));
        let (Ok(o1), Ok(o2)) = (at(as_utc - 86_400), at(as_utc + 86_400)) else {
            break;
        };
        let valid = |o: Offset| at(as_utc - o.seconds() as i64).map_or(false, |got| got == o);
        let mut v: Vec<Offset> = vec![];
        for o in [o1, o2] {
            if valid(o) && !v.contains(&o) {
                v.push(o);
            }
        }
        let got = tz.to_ambiguous_timestamp(dt).offset();
        let ok = match (v.len(), &got) {
            (1, AmbiguousOffset::Unambiguous { offset }) => *offset == v[0],
            (2, AmbiguousOffset::Fold { before, after }) => {
                v.contains(before) && v.contains(after) && before != after
            }
            (0, AmbiguousOffset::Gap { .. }) => true,
            _ => false,
        };
        if !ok {
            return Err(format!(
                "to_ambiguous_timestamp({dt}) says {got:?}, but to_offset makes {} of the candidate offsets {:?} valid for that civil time",
                v.len(),
                [o1, o2]
            ));
        }
        n += 1;
        dt = dt.checked_add(jiff::ToSpan::minutes(30)).unwrap();
    }
    Ok(n)
}

/// A second check that needs no recording: what `to_offset_info(ts)` reports
/// (offset, abbreviation, DST flag) must be what `to_offset(ts)` reports and
/// what the most recent transition at or before `ts` switched to -- three
/// code paths per kind that must describe the same zone.
pub fn info_consistent(tz: &jiff::tz::TimeZone) -> Result<usize, String> {
    use jiff::Timestamp;
    let mut n = 0;
    for (start, step, count) in [
        (631_152_000i64, 6 * 3600 + 1800, 4 * 366),   // 1990
        (1_704_067_200, 6 * 3600 + 1800, 4 * 366),    // 2024
        (2_366_841_600, 6 * 3600 + 1800, 4 * 366),    // 2045 (TZif footers)
    ] {
        for i in 0..count {
            let Ok(ts) = Timestamp::from_second(start + i * step) else { continue };
            let info = tz.to_offset_info(ts);
            let off = tz.to_offset(ts);
            if info.offset() != off {
                return Err(format!(
                    "to_offset_info({ts}).offset() = {} but to_offset({ts}) = {off}",
                    info.offset()
                ));
            }
            let Ok(after) = Timestamp::from_second(start + i * step + 1) else { continue };
            if let Some(tr) = tz.preceding(after).next() {
                if tr.offset() != info.offset()
                    || tr.abbreviation() != info.abbreviation()
                    || tr.dst() != info.dst()
                {
                    return Err(format!(
                        "to_offset_info({ts}) = ({}, {:?}, {:?}) but the latest transition before it (at {}) switched to ({}, {:?}, {:?})",
                        info.offset(),
                        info.abbreviation(),
                        info.dst(),
                        tr.timestamp(),
                        tr.offset(),
                        tr.abbreviation(),
                        tr.dst()
                    ));
                }
            }
            n += 1;
        }
    }
    Ok(n)
}

/// A third recording-free check, at the places where the first two do not
/// look: the very second of each transition. For every transition `t` the
/// zone reports from 1990 on (up to 80 of them), instants with a fractional
/// second around `t` must see it exactly like the whole-second instants do:
/// `preceding` of anything in `(t, t + 1 s]` starts with `t`, `preceding(t)`
/// starts before it, `following` of anything in `[t - 1 s, t)` starts with
/// `t`, `following(t)` starts after it, and from `t` on -- including
/// `t + 0.5 s` -- the offset is the one the transition switched to.
pub fn boundary_consistent(tz: &jiff::tz::TimeZone) -> Result<usize, String> {
    use jiff::{SignedDuration, Timestamp};
    let half = SignedDuration::from_millis(500);
    let one = SignedDuration::from_secs(1);
    let mut at = Timestamp::from_second(631_152_000).unwrap();
    let mut n = 0;
    for _ in 0..80 {
        let first = tz.following(at).next();
        let Some(tr) = first else { break };
        let t = tr.timestamp();
        if t <= at {
            return Err(format!("following({at}) starts with a transition at {t}, which is not after it"));
        }
        let first_of = |ts: Timestamp, back: bool| -> Option<Timestamp> {
            if back { tz.preceding(ts).next().map(|x| x.timestamp()) } else { tz.following(ts).next().map(|x| x.timestamp()) }
        };
        let (Ok(t_half), Ok(t_one), Ok(t_mhalf), Ok(t_mone)) =
            (t.checked_add(half), t.checked_add(one), t.checked_sub(half), t.checked_sub(one))
        else {
            break;
        };
        for (what, ts, back, want_t) in [
            ("preceding(t + 0.5 s)", t_half, true, true),
            ("preceding(t + 1 s)", t_one, true, true),
            ("following(t - 0.5 s)", t_mhalf, false, true),
            ("following(t - 1 s)", t_mone, false, true),
        ] {
            let got = first_of(ts, back);
            if (got == Some(t)) != want_t {
                return Err(format!("transition at t = {t}: {what} starts with {got:?}"));
            }
        }
        if let Some(p) = first_of(t, true) {
            if p >= t {
                return Err(format!("transition at t = {t}: preceding(t) starts with {p}"));
            }
        }
        if let Some(f) = first_of(t, false) {
            if f <= t {
                return Err(format!("transition at t = {t}: following(t) starts with {f}"));
            }
        }
        for ts in [t, t_half, t_one] {
            let off = tz.to_offset(ts);
            let info = tz.to_offset_info(ts);
            if off != tr.offset() || info.offset() != tr.offset() || info.abbreviation() != tr.abbreviation() {
                return Err(format!(
                    "transition at t = {t} switched to ({}, {:?}) but at {ts} the zone says ({off}, {:?})",
                    tr.offset(),
                    tr.abbreviation(),
                    info.abbreviation()
                ));
            }
        }
        n += 1;
        at = t;
    }
    Ok(n)
}

/// Compares the behaviour digest of a fresh handle of every pooled zone
/// with the recorded one, and static zones with their heap twins.
pub fn check_digests() -> Result<usize, String> {
    let v: Value =
        serde_json::from_str(include_str!("../../golden/c20_answers.json")).unwrap_or(json!({}));
    let rec = &v["__digests__"];
    let mut n = 0;
    for spec in golden_specs() {
        let tz = interp::make_tz(&spec);
        if let Err(e) = ambiguity_consistent(&tz) {
            return Err(format!("[answer_consistency] a fresh {spec:?} handle is inconsistent with itself: {e}"));
        }
        if let Err(e) = info_consistent(&tz) {
            return Err(format!("[answer_consistency] a fresh {spec:?} handle is inconsistent with itself: {e}"));
        }
        if let Err(e) = boundary_consistent(&tz) {
            return Err(format!("[answer_consistency] a fresh {spec:?} handle is inconsistent with itself: {e}"));
        }
        let d = format!("{:016x}", digest(&tz));
        if let Some(want) = rec[key(&spec)].as_str() {
            n += 1;
            if want != d {
                return Err(format!(
                    "[answer_recorded] the behaviour of a fresh {spec:?} handle over the probe grid (offsets, abbreviations, gap/fold classification, transitions) differs from the recorded behaviour of the pinned tree (digest {d}, recorded {want})"
                ));
            }
        }
    }
    for i in 0..N_STATIC {
        let (s, hp) = (interp::make_tz(&Spec::Static(i)), interp::make_tz(&Spec::TzifBundled(i)));
        if digest(&s) != digest(&hp) {
            return Err(format!(
                "[static_vs_heap] static zone {} and the heap zone built from the same bytes behave differently over the probe grid",
                interp::STATIC_NAMES[i as usize]
            ));
        }
    }
    Ok(n)
}

pub fn dump() -> Value {
    let mut out = serde_json::Map::new();
    let mut digests = serde_json::Map::new();
    for spec in golden_specs() {
        let tz = interp::make_tz(&spec);
        digests.insert(key(&spec), json!(format!("{:016x}", digest(&tz))));
    }
    out.insert("__digests__".to_string(), Value::Object(digests));
    for spec in golden_specs() {
        let tz = interp::make_tz(&spec);
        let mut m = serde_json::Map::new();
        for q in 0..N_QUERIES {
            if q == 7 {
                continue;
            }
            for t in 0..N_INSTANTS {
                m.insert(format!("{q},{t}"), json!(interp::answer(&tz, q, t)));
            }
        }
        out.insert(key(&spec), Value::Object(m));
    }
    Value::Object(out)
}

static TABLE: OnceLock<HashMap<String, HashMap<(u8, u8), String>>> = OnceLock::new();

fn table() -> &'static HashMap<String, HashMap<(u8, u8), String>> {
    TABLE.get_or_init(|| {
        let v: Value =
            serde_json::from_str(include_str!("../../golden/c20_answers.json")).unwrap_or(json!({}));
        let mut out = HashMap::new();
        if let Some(obj) = v.as_object() {
            for (k, m) in obj {
                let mut inner = HashMap::new();
                if let Some(m) = m.as_object() {
                    for (qt, a) in m {
                        let mut it = qt.split(',');
                        let (Some(q), Some(t)) = (it.next(), it.next()) else { continue };
                        let (Ok(q), Ok(t)) = (q.parse::<u8>(), t.parse::<u8>()) else { continue };
                        inner.insert((q, t), a.as_str().unwrap_or("").to_string());
                    }
                }
                out.insert(k.clone(), inner);
            }
        }
        out
    })
}

/// Forces the table to be parsed (before allocation tracking starts).
pub fn load() -> usize {
    table().len()
}

/// A static zone and the heap zone built from the same bytes must answer
/// every query identically (live comparison, independent of the recording).
pub fn static_matches_heap() -> Result<(), String> {
    for i in 0..N_STATIC {
        let s = interp::make_tz(&Spec::Static(i));
        let h = interp::make_tz(&Spec::TzifBundled(i));
        for q in 0..N_QUERIES {
            for t in 0..N_INSTANTS {
                let (a, b) = (interp::answer(&s, q, t), interp::answer(&h, q, t));
                if a != b {
                    return Err(format!(
                        "static zone {} answers query {q} at instant {t} with {a:?}, the heap zone built from the same bytes with {b:?}",
                        interp::STATIC_NAMES[i as usize]
                    ));
                }
            }
        }
        // Two expansions of the same `get!` (other static data, same zone)
        // are the same zone: equal, in both orders, and behaving alike.
        let twin = interp::make_tz(&Spec::Static(i + N_STATIC));
        if !(s == twin && twin == s) {
            return Err(format!(
                "[eq_value] two static handles of {} from two `get!` expansions compare unequal",
                interp::STATIC_NAMES[i as usize]
            ));
        }
        if digest(&s) != digest(&twin) {
            return Err(format!(
                "[static_vs_heap] two static expansions of {} behave differently over the probe grid",
                interp::STATIC_NAMES[i as usize]
            ));
        }
    }
    Ok(())
}

/// Whether the two expansions of each static zone really are different
/// static data (if the compiler merged them, comparing them proves nothing).
pub fn static_twins_distinct() -> bool {
    (0..N_STATIC).all(|i| {
        let a = interp::make_tz(&Spec::Static(i));
        let b = interp::make_tz(&Spec::Static(i + N_STATIC));
        let (x, y): (usize, usize) =
            unsafe { (std::mem::transmute_copy(&a), std::mem::transmute_copy(&b)) };
        x != y
    })
}

/// The recorded answer, if this (spec, query, instant) is in the table.
pub fn recorded(spec: &Spec, q: u8, t: u8) -> Option<&'static str> {
    table().get(&key(spec))?.get(&(q, t)).map(|s| s.as_str())
}

/// Answers that are specified without reference to any recording.
pub fn specified(spec: &Spec, q: u8, _t: u8) -> Option<String> {
    let fixed = |s: i32| -> Option<String> {
        Some(match q % N_QUERIES {
            0 => format!("{s}"),
            3 => format!("Ok({s})"),
            5 | 6 => "None".to_string(),
            9 => "false".to_string(),
            11 | 12 => String::new(),
            _ => return None,
        })
    };
    match *spec {
        Spec::Utc | Spec::Fixed(0) => match q % N_QUERIES {
            1 => Some("0|No|UTC".to_string()),
            2 => Some("Some(\"UTC\")".to_string()),
            _ => fixed(0),
        },
        // "CLDR says Etc/Unknown should behave like UTC"; it is explicitly
        // not an IANA identifier.
        Spec::Unknown => match q % N_QUERIES {
            0 => Some("0".to_string()),
            2 => Some("None".to_string()),
            5 | 6 => Some("None".to_string()),
            9 => Some("true".to_string()),
            11 | 12 => Some(String::new()),
            _ => None,
        },
        Spec::Fixed(s) => match q % N_QUERIES {
            2 => Some("None".to_string()),
            _ => fixed(s),
        },
        _ => None,
    }
}
