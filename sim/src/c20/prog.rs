//! C20 programs: bounded per-thread operation lists over a pool of slots
//! holding `TimeZone`, `Zoned` or `AmbiguousZoned` values. Pure data +
//! generator; shared by the native simulator and the Miri tier.

use serde::{Deserialize, Serialize};

use crate::rng::Rng;

pub const SLOTS: usize = 6;

/// Pairwise semantically distinct POSIX TZ strings. Entries 6.. are
/// near-duplicates of entry 0 that differ in exactly one field, so that an
/// equality that ignores a field is exposed.
pub const POSIX: &[&str] = &[
    "EST5EDT,M3.2.0,M11.1.0",
    "CET-1CEST,M3.5.0,M10.5.0/3",
    "<+0530>-5:30",
    "NZST-12NZDT,M9.5.0,M4.1.0/3",
    "IST-1GMT0,M10.5.0,M3.5.0/1",
    "XYZ3",
    "EST5EDT,M3.2.0,M11.1.0/3",
    "EST5EDT,M3.2.0/3,M11.1.0",
    "EST5EDT,M3.2.0,M11.2.0",
    "EST5EDT,M3.2.1,M11.1.0",
    "EST5EDT,M4.2.0,M11.1.0",
    "EST5EDT3,M3.2.0,M11.1.0",
    "EST5:00:01EDT,M3.2.0,M11.1.0",
    "EST-5EDT,M3.2.0,M11.1.0",
    "ESX5EDT,M3.2.0,M11.1.0",
    "EST5EDX,M3.2.0,M11.1.0",
    "EST5EDT,J60,M11.1.0",
    "EST5EDT,60,M11.1.0",
    "EST5EDT,59,M11.1.0",
    "EST5EDT,M3.2.0,M11.1.0/-1",
    "XYZ-3",
    "XYZ3:00:01",
    // Transitions at or around midnight: the gap or fold spills over into
    // the neighbouring civil day.
    "EET-2EEST,M3.5.0/0,M10.5.0/0",
    "<-02>2<-01>,M3.5.0/-1,M10.5.0/0",
    "<-04>4<-03>,M10.1.0/0,M3.4.0/0",
    "AAA1BBB,M3.2.0/23:30,M11.1.0/0:15",
    "CCC-1DDD-3,M3.5.0/23,M10.5.0/25",
    // Legal but unusual: daylight time with the *same* offset as standard
    // time (only the abbreviation and the DST flag change), and daylight
    // time *behind* standard time.
    "AAA5BBB5,M3.2.0,M11.1.0",
    "CCC5DDD6,M3.2.0,M11.1.0",
    "<+03>-3<+03>-3,M3.5.0/1,M10.5.0/2",
];

/// Footers (and the matching type tables) of `Spec::TzifFooter` zones:
/// (rule, standard offset, standard abbreviation, DST offset, DST
/// abbreviation). In all of them 1 January is in standard time.
pub const FOOTERS: &[(&str, i32, &str, i32, &str)] = &[
    ("AAA5BBB5,M3.2.0,M11.1.0", -18_000, "AAA", -18_000, "BBB"),
    ("EST5EDT,M3.2.0,M11.1.0", -18_000, "EST", -14_400, "EDT"),
    ("CCC5DDD6,M3.2.0,M11.1.0", -18_000, "CCC", -21_600, "DDD"),
    ("EET-2EEST,M3.5.0/0,M10.5.0/0", 7_200, "EET", 10_800, "EEST"),
];

pub const N_STATIC: u8 = 3;

/// Second expansions of the `get!` zones of `interp.rs` (`S0`..`S2`), in
/// another module so that they are other static data: equality of static
/// handles must be by value, not by address.
/// They are also spelled in other ASCII cases than the tz database spells
/// them: `get!` looks names up case-insensitively, and the zone it builds is
/// the database's, under the database's name.
pub static T0: jiff::tz::TimeZone = jiff::tz::get!("america/new_york");
pub static T1: jiff::tz::TimeZone = jiff::tz::get!("EUROPE/DUBLIN");
pub static T2: jiff::tz::TimeZone = jiff::tz::get!("asia/KOLKATA");

#[derive(Clone, Debug, PartialEq, Eq, Hash, Serialize, Deserialize)]
pub enum Spec {
    Utc,
    Unknown,
    Fixed(i32),
    Posix(u8),
    /// One of jiff's real TZif test files, from bytes.
    TzifReal(u8),
    /// Synthetic TZif (see zonegen), from bytes.
    TzifSynth { k: u32, tr: bool },
    /// Synthetic TZif data `k` under one of a few shared names: the same
    /// name with different data, and the same data under different names,
    /// are different zones.
    TzifNamed { name: u8, k: u32 },
    /// A synthetic TZif file with one explicit transition (2000-01-01) and
    /// a daylight saving rule in its footer (`FOOTERS[i]`): everything after
    /// the table is computed from the rule.
    TzifFooter(u8),
    /// `TimeZone::system()` with `TZ` naming a TZif file outside any
    /// `zoneinfo/` directory: a heap TZif zone *without a name*, of which
    /// jiff's process-global system-zone cache keeps a handle of its own for
    /// as long as it likes (so only the handles of the program are counted).
    System,
    /// `jiff::tz::get!` static (no heap).
    Static(u8),
    /// Heap TZif built from the *same name and bytes* as `Static(i)` (the
    /// bundled tz database): the static and the heap representation of one
    /// zone meet.
    TzifBundled(u8),
    /// A zone obtained from a `TimeZoneDatabase` over a small zoneinfo
    /// directory (never created by `New`, only by `DbGet`): the database
    /// keeps its own handle in its cache.
    Db(u8),
}

impl Spec {
    /// Specs that must compare equal have equal canonical forms.
    pub fn canon(&self) -> Spec {
        match self {
            Spec::Fixed(0) => Spec::Utc,
            // `Static(i + N_STATIC)` is a second expansion of the same
            // `get!` in another module: other static data, same zone.
            Spec::Static(i) => Spec::Static(i % N_STATIC),
            s => s.clone(),
        }
    }
    pub fn heap(&self) -> bool {
        matches!(
            self,
            Spec::Posix(_)
                | Spec::TzifReal(_)
                | Spec::TzifSynth { .. }
                | Spec::TzifNamed { .. }
                | Spec::TzifFooter(_)
                | Spec::System
                | Spec::TzifBundled(_)
                | Spec::Db(_)
        )
    }
    /// 0: inline kinds (UTC, unknown, fixed), 1: POSIX, 2: TZif, 3: static.
    pub fn class(&self) -> u8 {
        match self {
            Spec::Utc | Spec::Unknown | Spec::Fixed(_) => 0,
            Spec::Posix(_) => 1,
            Spec::TzifReal(_)
            | Spec::TzifSynth { .. }
            | Spec::TzifNamed { .. }
            | Spec::TzifFooter(_)
            | Spec::System
            | Spec::TzifBundled(_)
            | Spec::Db(_) => 2,
            Spec::Static(_) => 3,
        }
    }
    pub fn kind_name(&self) -> &'static str {
        match self {
            Spec::Utc => "utc",
            Spec::Unknown => "unknown",
            Spec::Fixed(_) => "fixed",
            Spec::Posix(_) => "posix",
            Spec::TzifReal(_) => "tzif_real",
            Spec::TzifSynth { .. } => "tzif_synth",
            Spec::TzifNamed { .. } => "tzif_named",
            Spec::TzifFooter(_) => "tzif_footer_rule",
            Spec::System => "system_unnamed_tzif",
            Spec::TzifBundled(_) => "tzif_bundled",
            Spec::Db(_) => "from_database",
            Spec::Static(_) => "static",
        }
    }
}

#[derive(Clone, Debug, PartialEq, Eq, Serialize, Deserialize)]
pub enum Op {
    New { dst: u8, spec: Spec },
    /// Creates another zone from the spec this thread created most recently
    /// (whatever became of that zone since: sent away, dropped elsewhere).
    NewAgain { dst: u8 },
    Clone { src: u8, dst: u8 },
    Drop { slot: u8 },
    /// `dst = take(src)`; the old value of `dst` is dropped.
    Move { src: u8, dst: u8 },
    Eq { a: u8, b: u8 },
    /// `dst.clone_from(&src)` for two values of the same type (`TimeZone`,
    /// `Zoned` or `AmbiguousZoned`): `dst`'s old handle goes, a handle of
    /// `src`'s zone comes.
    CloneFrom { src: u8, dst: u8 },
    Query { a: u8, q: u8, t: u8 },
    /// `Timestamp[t].to_zoned(tz.clone())`
    IntoZoned { src: u8, dst: u8, t: u8 },
    /// `zoned.checked_add(hours)`
    ZonedAdd { src: u8, dst: u8, hours: i16 },
    /// `zoned.with_time_zone(handle_of(tz).clone())`
    ZonedWithTz { src: u8, tz: u8, dst: u8 },
    /// `value.time_zone().clone()`
    ExtractTz { src: u8, dst: u8 },
    /// `tz.to_ambiguous_zoned(dt)` (`consume`: `into_ambiguous_zoned`)
    ToAmbiguous { src: u8, dst: u8, dt: u8, consume: bool },
    /// `amb.compatible()` / `.later()`, consuming the value.
    Resolve { src: u8, dst: u8, later: bool },
    /// One of `N_ZONED_MAKE` APIs that build a new `Zoned` from a `Zoned`
    /// (arithmetic, operators, rounding, start/end of day, `with()`,
    /// `series`, ...): each embeds a fresh clone of the handle.
    ZonedMake { src: u8, dst: u8, which: u8, arg: i16 },
    /// One of `N_ZONED_MUTATE` in-place APIs (`+=`, `-=` with spans and
    /// durations, `clone_from`, `mem::take`-style replacement).
    ZonedMutate { slot: u8, which: u8, arg: i16 },
    /// `Zoned` comparison, ordering and hashing of two values.
    ZonedCompare { a: u8, b: u8 },
    /// One of `N_ZONED_PAIR` APIs over two `Zoned` values (`until` / `since`
    /// with various largest units, `&a - &b`, `duration_until`): they build
    /// temporaries that embed the handle.
    ZonedPair { a: u8, b: u8, which: u8 },
    /// `until` and `since` between the value and a temporary `Zoned` at every
    /// probe instant (same zone), for every largest unit: rare branches of
    /// the difference algorithm (DST gaps and folds) are hit systematically
    /// rather than by luck.
    ZonedSweep { a: u8 },
    /// One of `N_SPAN_REL` `Span` APIs that take the `Zoned` as their
    /// relative datetime (`total`, `round`, `compare`, `checked_add`) and
    /// build temporaries embedding the handle; plus printing the value.
    ZonedSpanRel { a: u8, which: u8, arg: i16 },
    /// One of `N_TZ_MAKE` APIs that build a `Zoned`/`AmbiguousZoned` from a
    /// `TimeZone` handle (`Zoned::new`, `tz.to_zoned`, `dt.to_zoned`, ...).
    TzMake { src: u8, dst: u8, which: u8, t: u8 },
    /// One of `N_AMB_OPS` consuming APIs of `AmbiguousZoned`.
    AmbOp { src: u8, dst: u8, which: u8 },
    /// `BrokenDownTime::from(&zoned)`: an owned value *derived* from the
    /// zoned datetime. It holds no handle; it must stay usable (and right)
    /// after every handle of the zone is gone.
    MakeDerived { src: u8, dst: u8 },
    /// Uses a derived value: IANA name, offset, formatting with `%Q %Z %z`.
    UseDerived { slot: u8 },
    /// `database.get(name)` (in one of four ASCII-case spellings, `case % 4`),
    /// directly or through one of the parsing APIs that take a database
    /// (`case / 4`): the database hands out a clone of the handle in its
    /// cache.
    DbGet { dst: u8, name: u8, case: u8 },
    /// `database.reset()`: the cache drops its handles.
    DbReset,
    /// Advances the simulated clock the database's TTLs run on.
    DbAdvance { step: u8 },
    /// New mtime on a zone file: after the TTL the cache entry is replaced.
    DbTouch { name: u8 },
    Send { slot: u8, to: u8 },
    Recv { dst: u8 },
    SwapShared { slot: u8 },
    /// Fault: the thread panics here; unwinding drops everything it owns.
    Crash,
}

impl Op {
    pub fn name(&self) -> &'static str {
        match self {
            Op::New { .. } => "new",
            Op::NewAgain { .. } => "new_again",
            Op::Clone { .. } => "clone",
            Op::Drop { .. } => "drop",
            Op::Move { .. } => "move",
            Op::Eq { .. } => "eq",
            Op::CloneFrom { .. } => "clone_from",
            Op::Query { .. } => "query",
            Op::IntoZoned { .. } => "into_zoned",
            Op::ZonedAdd { .. } => "zoned_add",
            Op::ZonedWithTz { .. } => "zoned_with_tz",
            Op::ExtractTz { .. } => "extract_tz",
            Op::ToAmbiguous { .. } => "to_ambiguous",
            Op::Resolve { .. } => "resolve",
            Op::ZonedMake { .. } => "zoned_make",
            Op::ZonedMutate { .. } => "zoned_mutate",
            Op::ZonedCompare { .. } => "zoned_compare",
            Op::ZonedPair { .. } => "zoned_pair",
            Op::ZonedSweep { .. } => "zoned_sweep",
            Op::ZonedSpanRel { .. } => "zoned_span_rel",
            Op::TzMake { .. } => "tz_make",
            Op::AmbOp { .. } => "amb_op",
            Op::MakeDerived { .. } => "make_derived",
            Op::UseDerived { .. } => "use_derived",
            Op::DbGet { .. } => "db_get",
            Op::DbReset => "db_reset",
            Op::DbAdvance { .. } => "db_advance",
            Op::DbTouch { .. } => "db_touch",
            Op::Send { .. } => "send",
            Op::Recv { .. } => "recv",
            Op::SwapShared { .. } => "swap_shared",
            Op::Crash => "crash",
        }
    }
}

#[derive(Clone, Debug, PartialEq, Eq, Serialize, Deserialize)]
pub struct Case {
    pub threads: Vec<Vec<Op>>,
    /// Per-run knob of the memory oracle: fill freed memory with 0xDD.
    #[serde(default)]
    pub poison_freed_memory: bool,
}

pub const N_INSTANTS: u8 = 14;
pub const N_DATETIMES: u8 = 6;
pub const N_QUERIES: u8 = 13;
pub const N_ZONED_MAKE: u8 = 34;
pub const N_ZONED_MUTATE: u8 = 9;
pub const N_TZ_MAKE: u8 = 10;
pub const N_AMB_OPS: u8 = 6;
pub const N_ZONED_PAIR: u8 = 16;
pub const N_SPAN_REL: u8 = 8;
pub const DB_NAMES: [&str; 3] = ["Db/A", "Db/b_", "db/C"];

fn spec(rng: &mut Rng, pool: &[Spec]) -> Spec {
    if !pool.is_empty() && rng.chance(3, 5) {
        return rng.pick(pool).clone();
    }
    fresh_spec(rng)
}

pub fn fresh_spec(rng: &mut Rng) -> Spec {
    match rng.weighted(&[6, 4, 18, 20, 18, 12, 12, 10, 8, 8, 5]) {
        0 => Spec::Utc,
        1 => Spec::Unknown,
        2 => {
            let s = match rng.below(6) {
                0 => *rng.pick(&[0, 1, -1, 93_599, -93_599, 3600, -3600, 15, -15]),
                _ => rng.range(-93_599, 93_599) as i32,
            };
            Spec::Fixed(s)
        }
        3 => Spec::Posix(rng.below(POSIX.len() as u64) as u8),
        4 => Spec::TzifReal(rng.below(crate::zonegen::REAL_TZIF.len() as u64) as u8),
        5 => Spec::TzifSynth { k: 1 + rng.below(50) as u32, tr: rng.chance(1, 2) },
        6 => Spec::Static(rng.below(2 * N_STATIC as u64) as u8),
        7 => Spec::TzifNamed { name: rng.below(2) as u8, k: 1 + rng.below(3) as u32 },
        8 => Spec::TzifBundled(rng.below(N_STATIC as u64) as u8),
        9 => Spec::TzifFooter(rng.below(FOOTERS.len() as u64) as u8),
        _ => Spec::System,
    }
}

pub fn generate(rng: &mut Rng, thorough: bool) -> Case {
    let nthreads = 1 + rng.usize_below(4);
    let max_ops = if thorough { 40 } else { 24 };
    // A small per-run pool of specs so that the same zones meet each other.
    let mut pool = vec![];
    for _ in 0..(1 + rng.usize_below(4)) {
        pool.push(fresh_spec(rng));
    }
    // Swarm: some op kinds are switched off per run.
    let w_send = if nthreads > 1 && rng.chance(3, 4) { 12 } else { 0 };
    let w_shared = if nthreads > 1 && rng.chance(1, 2) { 6 } else { 0 };
    let w_zoned = if rng.chance(3, 4) { 10 } else { 0 };
    let w_crash = if rng.chance(1, 3) { 2 } else { 0 };
    let w_db = if rng.chance(1, 3) { 10 } else { 0 };
    let mut threads = vec![];
    for _ in 0..nthreads {
        let len = 1 + rng.usize_below(max_ops);
        let mut ops = vec![];
        // Rough occupancy model to bias towards meaningful operations.
        let mut occ = [false; SLOTS];
        for _ in 0..len {
            let any = occ.iter().any(|&o| o);
            let slot = |rng: &mut Rng| rng.below(SLOTS as u64) as u8;
            let full = |rng: &mut Rng, occ: &[bool; SLOTS]| -> u8 {
                let v: Vec<u8> =
                    (0..SLOTS as u8).filter(|&i| occ[i as usize]).collect();
                if v.is_empty() {
                    rng.below(SLOTS as u64) as u8
                } else {
                    *rng.pick(&v)
                }
            };
            let w_new = if any { 14 } else { 60 };
            let op = match rng.weighted(&[
                w_new, 16, 12, 6, 8, 14, w_zoned, w_zoned / 2, w_zoned / 2, w_zoned / 2,
                w_zoned / 2, w_zoned / 2, w_send, w_send, w_shared, w_crash,
                w_zoned, w_zoned, w_zoned / 3, w_zoned / 2, w_zoned / 2, w_zoned, w_zoned / 3,
                w_zoned / 2, w_db, w_db / 5, w_db / 2, w_db / 5, w_zoned / 2, w_zoned / 2, 8, 8,
            ]) {
                0 => {
                    let dst = slot(rng);
                    occ[dst as usize] = true;
                    Op::New { dst, spec: spec(rng, &pool) }
                }
                1 => {
                    let src = full(rng, &occ);
                    let dst = slot(rng);
                    if occ[src as usize] {
                        occ[dst as usize] = true;
                    }
                    Op::Clone { src, dst }
                }
                2 => {
                    let s = full(rng, &occ);
                    occ[s as usize] = false;
                    Op::Drop { slot: s }
                }
                3 => {
                    let src = full(rng, &occ);
                    let dst = slot(rng);
                    if src != dst {
                        occ[dst as usize] = occ[src as usize];
                        occ[src as usize] = false;
                    }
                    Op::Move { src, dst }
                }
                4 => Op::Eq { a: full(rng, &occ), b: full(rng, &occ) },
                5 => Op::Query {
                    a: full(rng, &occ),
                    q: rng.below(N_QUERIES as u64) as u8,
                    t: rng.below(N_INSTANTS as u64) as u8,
                },
                6 => {
                    let src = full(rng, &occ);
                    let dst = slot(rng);
                    if occ[src as usize] {
                        occ[dst as usize] = true;
                    }
                    Op::IntoZoned { src, dst, t: rng.below(N_INSTANTS as u64) as u8 }
                }
                7 => {
                    let src = full(rng, &occ);
                    let dst = slot(rng);
                    Op::ZonedAdd { src, dst, hours: rng.range(-30_000, 30_000) as i16 }
                }
                8 => Op::ZonedWithTz { src: full(rng, &occ), tz: full(rng, &occ), dst: slot(rng) },
                9 => {
                    let src = full(rng, &occ);
                    let dst = slot(rng);
                    if occ[src as usize] {
                        occ[dst as usize] = true;
                    }
                    Op::ExtractTz { src, dst }
                }
                10 => Op::ToAmbiguous {
                    src: full(rng, &occ),
                    dst: slot(rng),
                    dt: rng.below(N_DATETIMES as u64) as u8,
                    consume: rng.chance(1, 2),
                },
                11 => Op::Resolve { src: full(rng, &occ), dst: slot(rng), later: rng.chance(1, 2) },
                12 => {
                    let s = full(rng, &occ);
                    occ[s as usize] = false;
                    Op::Send { slot: s, to: rng.below(nthreads as u64) as u8 }
                }
                13 => {
                    let dst = slot(rng);
                    Op::Recv { dst }
                }
                14 => Op::SwapShared { slot: slot(rng) },
                15 => Op::Crash,
                16 => {
                    let src = full(rng, &occ);
                    let dst = slot(rng);
                    Op::ZonedMake {
                        src,
                        dst,
                        which: rng.below(N_ZONED_MAKE as u64) as u8,
                        arg: rng.range(-2_000, 2_000) as i16,
                    }
                }
                17 => Op::ZonedMutate {
                    slot: full(rng, &occ),
                    which: rng.below(N_ZONED_MUTATE as u64) as u8,
                    arg: rng.range(-2_000, 2_000) as i16,
                },
                18 => Op::ZonedCompare { a: full(rng, &occ), b: full(rng, &occ) },
                19 => {
                    let src = full(rng, &occ);
                    let dst = slot(rng);
                    if occ[src as usize] {
                        occ[dst as usize] = true;
                    }
                    Op::TzMake {
                        src,
                        dst,
                        which: rng.below(N_TZ_MAKE as u64) as u8,
                        t: rng.below(N_INSTANTS as u64) as u8,
                    }
                }
                20 => Op::AmbOp {
                    src: full(rng, &occ),
                    dst: slot(rng),
                    which: rng.below(N_AMB_OPS as u64) as u8,
                },
                21 => Op::ZonedPair {
                    a: full(rng, &occ),
                    b: full(rng, &occ),
                    which: rng.below(N_ZONED_PAIR as u64) as u8,
                },
                22 => Op::ZonedSweep { a: full(rng, &occ) },
                23 => Op::ZonedSpanRel {
                    a: full(rng, &occ),
                    which: rng.below(N_SPAN_REL as u64) as u8,
                    arg: rng.range(-400, 400) as i16,
                },
                24 => {
                    let dst = slot(rng);
                    occ[dst as usize] = true;
                    Op::DbGet {
                        dst,
                        name: rng.below(DB_NAMES.len() as u64) as u8,
                        // spelling (case % 4) and lookup path (case / 4)
                        case: rng.below(44) as u8,
                    }
                }
                25 => Op::DbReset,
                26 => Op::DbAdvance { step: rng.below(4) as u8 },
                27 => Op::DbTouch { name: rng.below(DB_NAMES.len() as u64) as u8 },
                28 => {
                    let src = full(rng, &occ);
                    let dst = slot(rng);
                    if occ[src as usize] {
                        occ[dst as usize] = true;
                    }
                    Op::MakeDerived { src, dst }
                }
                29 => Op::UseDerived { slot: full(rng, &occ) },
                31 => Op::CloneFrom { src: full(rng, &occ), dst: full(rng, &occ) },
                _ => {
                    let dst = slot(rng);
                    occ[dst as usize] = true;
                    Op::NewAgain { dst }
                }
            };
            let crash = op == Op::Crash;
            ops.push(op);
            if crash {
                break;
            }
        }
        threads.push(ops);
    }
    Case { threads, poison_freed_memory: rng.chance(1, 2) }
}

/// Small programs for the Miri tier (interpretation is ~1000x slower):
/// 2-3 threads, at most 10 operations each, and only zones whose TZif data
/// is small (synthetic files, `utc`, `pacific-honolulu`).
pub fn generate_small(rng: &mut Rng) -> Case {
    let mut case = generate(rng, false);
    case.threads.truncate(3);
    if case.threads.len() < 2 {
        let extra = generate(rng, false);
        case.threads.extend(extra.threads.into_iter().take(1));
    }
    let n = case.threads.len() as u8;
    for t in case.threads.iter_mut() {
        t.truncate(10);
        for op in t.iter_mut() {
            match op {
                Op::New { spec, .. } => {
                    if let Spec::TzifReal(i) = spec {
                        // 8: pacific-honolulu, 10: utc
                        *i = if *i % 2 == 0 { 8 } else { 10 };
                    }
                    // No environment or file system under Miri's isolation.
                    if matches!(spec, Spec::System) {
                        *spec = Spec::TzifFooter(1);
                    }
                }
                Op::Send { to, .. } => *to %= n,
                // 180 `until`/`since` calls per operation are too slow when
                // interpreted.
                Op::ZonedSweep { a } => *op = Op::ZonedPair { a: *a, b: *a, which: 3 },
                // No file system under Miri's isolation.
                Op::DbGet { .. } | Op::DbReset | Op::DbAdvance { .. } | Op::DbTouch { .. } => {
                    *op = Op::Eq { a: 0, b: 1 }
                }
                _ => {}
            }
        }
    }
    case
}
