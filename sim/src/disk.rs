//! The simulated disk: a private directory on tmpfs, mutated only by
//! simulator operations. Real code runs end to end (jiff -> std::fs -> kernel
//! tmpfs); what the simulator controls is *when* each mutation step lands
//! relative to jiff's own I/O. After every atomic mutation step the model
//! re-reads the real disk and appends, per zone name, the state a reader
//! would now see (bytes + mtime), stamped with the global event number.

use std::collections::HashMap;
use std::fs::{self, File, OpenOptions};
use std::io::Write;
use std::os::unix::fs::FileExt;
use std::path::{Path, PathBuf};
use std::time::{Duration, SystemTime};

use serde::{Deserialize, Serialize};

use crate::zonegen;

#[derive(Clone, Copy, Debug, PartialEq, Eq, Serialize, Deserialize)]
pub enum Backend {
    ZoneInfo,
    Concatenated,
    Bundled,
}

/// What gets written. Serialisable so that replay files are explicit.
#[derive(Clone, Debug, PartialEq, Eq, Serialize, Deserialize)]
pub enum Content {
    /// Synthetic TZif with UT offset `k` (unique per write in a run).
    Synth { k: u32, tr: bool },
    /// One of jiff's real test TZif files.
    Real(usize),
    /// Not TZif at all.
    Garbage(u8),
    /// Starts like the synthetic TZif file `k` but is cut after `len` bytes
    /// (at least the magic): listed by a directory walk, but not loadable.
    Truncated { k: u32, len: u8 },
}

impl Content {
    pub fn bytes(&self) -> Vec<u8> {
        match *self {
            Content::Synth { k, tr } => zonegen::synth_tzif(k, tr),
            Content::Real(i) => {
                zonegen::REAL_TZIF[i % zonegen::REAL_TZIF.len()].1.to_vec()
            }
            Content::Garbage(b) => vec![b; 64],
            Content::Truncated { k, len } => {
                let mut v = zonegen::synth_tzif(k, false);
                v.truncate((len as usize).clamp(4, v.len() - 1));
                v
            }
        }
    }
}

pub type ContentId = u32;

/// What a reader of one zone name sees at one moment.
#[derive(Clone, Debug, PartialEq, Eq, Hash)]
pub enum View {
    /// No such file (or no such index entry / no usable container).
    Absent,
    /// Exists but cannot be read as a file (directory, dangling or looping
    /// symlink, blob out of bounds).
    Unreadable,
    /// `mtime`: nanoseconds since the epoch, `None` when jiff cannot
    /// represent it as a `Timestamp`.
    /// `ino`: which file (inode) the bytes live in; 0 when not tracked.
    Bytes { content: ContentId, mtime: Option<i128>, ino: u64 },
}

#[derive(Clone, Debug)]
pub struct Snapshot {
    /// Event number of the mutation step that produced this snapshot.
    pub begin: u32,
    /// One view per universe name.
    pub views: Vec<View>,
    /// Concatenated back-end only: is the container usable at all?
    pub container_ok: bool,
    /// zoneinfo with a symlink alias: the universe name the link points at.
    pub alias_target: Option<usize>,
    /// Concatenated back-end: index names that are not universe names (a
    /// torn index can contain e.g. an all-zero entry, whose name is "").
    pub extra_names: Vec<String>,
    /// Concatenated back-end: the file (inode) the `tzdata` path denotes
    /// (0: none).
    pub image_ino: u64,
}

pub struct Disk {
    pub root: PathBuf,
    pub backend: Backend,
    /// Canonical (on-disk spelling) names that may ever exist in this run.
    pub universe: Vec<String>,
    contents: Vec<Vec<u8>>,
    content_ids: HashMap<Vec<u8>, ContentId>,
    pub snaps: Vec<Snapshot>,
    mtime_ctr: u64,
    /// Per-case salt for the shapes of the mtimes handed out.
    pub mtime_salt: u64,
    mtimes_issued: std::collections::HashSet<(u64, u32)>,
    /// Concatenated: the entry list of the image currently on disk, if the
    /// last write was a well-formed image (used for layout-preserving
    /// rewrites).
    pub image_entries: Option<Vec<(String, Vec<u8>)>>,
    pub syscalls_failed: u64,
    /// Index of the universe name that is a symlink alias, if any.
    pub alias: Option<usize>,
    /// Bumped whenever the `tzdata` path starts to denote another file.
    pub image_gen: u64,
    /// Per file (inode): its content over time, including content written
    /// through an open handle after the file was renamed over or unlinked
    /// (a reader that opened it earlier still sees that).
    pub inode_hist: HashMap<u64, Vec<(u32, ContentId)>>,
}

pub const MTIME_UNAVAILABLE_SECS: u64 = 400_000_000_000;

impl Disk {
    pub fn new(root: PathBuf, backend: Backend, universe: Vec<String>) -> Disk {
        Disk {
            root,
            backend,
            universe,
            contents: vec![],
            content_ids: HashMap::new(),
            snaps: vec![],
            mtime_ctr: 0,
            mtime_salt: 0,
            mtimes_issued: std::collections::HashSet::new(),
            image_entries: None,
            syscalls_failed: 0,
            alias: None,
            image_gen: 0,
            inode_hist: HashMap::new(),
        }
    }

    pub fn zi_dir(&self) -> PathBuf {
        self.root.join("zi")
    }
    pub fn stage_dir(&self) -> PathBuf {
        self.root.join("stage")
    }
    pub fn tzdata_path(&self) -> PathBuf {
        self.root.join("tzdata")
    }
    pub fn db_path(&self) -> PathBuf {
        match self.backend {
            Backend::ZoneInfo => self.zi_dir(),
            Backend::Concatenated => self.tzdata_path(),
            Backend::Bundled => self.root.clone(),
        }
    }

    pub fn content(&self, id: ContentId) -> &[u8] {
        &self.contents[id as usize]
    }

    fn intern(&mut self, bytes: Vec<u8>) -> ContentId {
        if let Some(&id) = self.content_ids.get(&bytes) {
            return id;
        }
        let id = self.contents.len() as ContentId;
        self.contents.push(bytes.clone());
        self.content_ids.insert(bytes, id);
        id
    }

    /// A fresh mtime: unique over the run (as a (seconds, nanoseconds)
    /// pair), deliberately not monotone, and of varying *shape*: whole
    /// seconds, several values inside one second (with and without a
    /// fractional part), values one nanosecond apart, and distinct seconds --
    /// whatever precision a comparison of mtimes looks at, some pair of
    /// different mtimes differs only below it.
    pub fn fresh_mtime(&mut self) -> SystemTime {
        self.mtime_ctr += 1;
        let c = self.mtime_ctr;
        const SHARED: u64 = 1_600_500_000;
        let distinct = 1_600_000_000 + (c * 7919) % 100_003;
        let h = crate::rng::mix(self.mtime_salt, c);
        let cand: (u64, u32) = match h % 8 {
            0 => (SHARED, 0),
            1 => (SHARED, 500_000_000),
            2 => (SHARED, 500_000_001),
            3 => (SHARED, c as u32),
            4 => (SHARED + 1, 0),
            5 => (distinct, 0),
            _ => (distinct, c as u32),
        };
        let t = if self.mtimes_issued.insert(cand) {
            cand
        } else {
            let fallback = (distinct, c as u32);
            self.mtimes_issued.insert(fallback);
            fallback
        };
        SystemTime::UNIX_EPOCH + Duration::new(t.0, t.1)
    }

    pub fn unavailable_mtime(&mut self) -> SystemTime {
        self.mtime_ctr += 1;
        SystemTime::UNIX_EPOCH
            + Duration::new(MTIME_UNAVAILABLE_SECS, self.mtime_ctr as u32)
    }

    fn ok<T>(&mut self, r: std::io::Result<T>) -> Option<T> {
        match r {
            Ok(t) => Some(t),
            Err(_) => {
                self.syscalls_failed += 1;
                None
            }
        }
    }

    pub fn set_mtime(&mut self, path: &Path, t: SystemTime) {
        let r = OpenOptions::new()
            .write(true)
            .open(path)
            .and_then(|f| f.set_modified(t));
        self.ok(r);
    }

    /// Creates the run's directory skeleton.
    pub fn init(&mut self) -> std::io::Result<()> {
        let _ = fs::remove_dir_all(&self.root);
        fs::create_dir_all(self.stage_dir())?;
        if self.backend == Backend::ZoneInfo {
            fs::create_dir_all(self.zi_dir())?;
        }
        // Decoy outside the database directory: a lookup of "../x" must
        // never find it.
        fs::write(self.root.join("x"), zonegen::synth_tzif(86_000, false))?;
        Ok(())
    }

    /// Entries a real zoneinfo directory also contains and that must never
    /// show up as zones: text files, hidden files, an empty file, an empty
    /// directory, a symlink to a directory, a dangling symlink, and a valid
    /// TZif file whose name is not UTF-8. `mask` selects which ones.
    pub fn zi_decoys(&mut self, mask: u32) -> std::io::Result<()> {
        use std::os::unix::ffi::OsStrExt;
        let zi = self.zi_dir();
        if mask & 1 != 0 {
            fs::write(zi.join("README"), b"This is not a time zone.\n")?;
            fs::write(zi.join("tzdata.zi"), b"# version 2099z\nZ Etc/Nope 0 - Nope\n")?;
        }
        if mask & 2 != 0 {
            fs::write(zi.join(".hidden"), b"x")?;
            fs::write(zi.join("empty"), b"")?;
            fs::write(zi.join("TZi"), b"TZi")?;
        }
        if mask & 4 != 0 {
            fs::create_dir_all(zi.join("emptydir/nested"))?;
            let _ = std::os::unix::fs::symlink(zi.join("emptydir"), zi.join("dirlink"));
            let _ = std::os::unix::fs::symlink("nowhere", zi.join("dangling"));
        }
        if mask & 8 != 0 {
            let name = std::ffi::OsStr::from_bytes(b"bad\xffname");
            fs::write(zi.join(name), zonegen::synth_tzif(85_000, false))?;
        }
        Ok(())
    }

    pub fn cleanup(&mut self) {
        let _ = fs::remove_dir_all(&self.root);
    }

    // -- zoneinfo primitives (each is one atomic step) ---------------------

    pub fn zi_path(&self, name: &str) -> PathBuf {
        self.zi_dir().join(name)
    }

    /// Atomic replace (or create): write a staged file, set its mtime, then
    /// rename it over the destination.
    pub fn zi_replace(&mut self, name: &str, bytes: &[u8], t: SystemTime) {
        let dst = self.zi_path(name);
        if let Some(parent) = dst.parent() {
            let r = fs::create_dir_all(parent);
            self.ok(r);
        }
        let tmp = self.stage_dir().join("tmp");
        let _ = fs::remove_file(&tmp);
        let r = fs::write(&tmp, bytes);
        self.ok(r);
        self.set_mtime(&tmp, t);
        // If the destination is a directory (left by an "unreadable" fault),
        // remove it first; a symlink or file is replaced by rename.
        if let Ok(md) = fs::symlink_metadata(&dst) {
            if md.is_dir() {
                let _ = fs::remove_dir_all(&dst);
            }
        }
        let r = fs::rename(&tmp, &dst);
        self.ok(r);
    }

    pub fn zi_truncate(&mut self, name: &str, t: SystemTime) {
        let p = self.zi_path(name);
        let r = OpenOptions::new()
            .write(true)
            .truncate(true)
            .open(&p)
            .and_then(|f| f.set_modified(t));
        self.ok(r);
    }

    pub fn zi_append(&mut self, name: &str, bytes: &[u8], t: SystemTime) {
        let p = self.zi_path(name);
        let r = OpenOptions::new().append(true).open(&p).and_then(|mut f| {
            f.write_all(bytes)?;
            f.set_modified(t)
        });
        self.ok(r);
    }

    pub fn zi_write_at(
        &mut self,
        name: &str,
        off: u64,
        bytes: &[u8],
        t: SystemTime,
    ) {
        let p = self.zi_path(name);
        let r = OpenOptions::new().write(true).open(&p).and_then(|f| {
            f.write_all_at(bytes, off)?;
            f.set_modified(t)
        });
        self.ok(r);
    }

    pub fn zi_set_len(&mut self, name: &str, len: u64, t: SystemTime) {
        let p = self.zi_path(name);
        let r = OpenOptions::new().write(true).open(&p).and_then(|f| {
            f.set_len(len)?;
            f.set_modified(t)
        });
        self.ok(r);
    }

    pub fn zi_touch(&mut self, name: &str, t: SystemTime) {
        let p = self.zi_path(name);
        self.set_mtime(&p, t);
    }

    pub fn zi_remove(&mut self, name: &str) {
        let p = self.zi_path(name);
        match fs::symlink_metadata(&p) {
            Ok(md) if md.is_dir() => {
                let r = fs::remove_dir_all(&p);
                self.ok(r);
            }
            Ok(_) => {
                let r = fs::remove_file(&p);
                self.ok(r);
            }
            Err(_) => {}
        }
    }

    pub fn zi_make_dir(&mut self, name: &str) {
        self.zi_remove(name);
        let p = self.zi_path(name);
        let r = fs::create_dir_all(&p);
        self.ok(r);
    }

    pub fn zi_symlink(&mut self, name: &str, target: &Path) {
        self.zi_remove(name);
        let p = self.zi_path(name);
        if let Some(parent) = p.parent() {
            let r = fs::create_dir_all(parent);
            self.ok(r);
        }
        let r = std::os::unix::fs::symlink(target, &p);
        self.ok(r);
    }

    // -- writes through a handle the writer keeps open -----------------------
    // (an in-place writer keeps writing to the file it opened, even if the
    // path is meanwhile renamed over or unlinked)

    pub fn open_rw(&mut self, path: &Path) -> Option<File> {
        let r = OpenOptions::new().read(true).write(true).open(path);
        self.ok(r)
    }

    pub fn fd_truncate(&mut self, f: &File, t: SystemTime) {
        let r = f.set_len(0).and_then(|_| f.set_modified(t));
        self.ok(r);
    }

    pub fn fd_write_at(&mut self, f: &File, off: u64, bytes: &[u8], t: SystemTime) {
        let r = f.write_all_at(bytes, off).and_then(|_| f.set_modified(t));
        self.ok(r);
    }

    // -- concatenated primitives -------------------------------------------

    pub fn cc_replace_image(
        &mut self,
        entries: Option<Vec<(String, Vec<u8>)>>,
        raw: &[u8],
        t: SystemTime,
    ) {
        let tmp = self.stage_dir().join("tmp");
        let _ = fs::remove_file(&tmp);
        let r = fs::write(&tmp, raw);
        self.ok(r);
        self.set_mtime(&tmp, t);
        let dst = self.tzdata_path();
        let r = fs::rename(&tmp, &dst);
        self.ok(r);
        self.image_entries = entries;
        self.image_gen += 1;
    }

    pub fn cc_write_at(&mut self, off: u64, bytes: &[u8], t: SystemTime) {
        let p = self.tzdata_path();
        let r = OpenOptions::new().write(true).open(&p).and_then(|f| {
            f.write_all_at(bytes, off)?;
            f.set_modified(t)
        });
        self.ok(r);
    }

    pub fn cc_set_len(&mut self, len: u64, t: SystemTime) {
        let p = self.tzdata_path();
        let r = OpenOptions::new().write(true).open(&p).and_then(|f| {
            f.set_len(len)?;
            f.set_modified(t)
        });
        self.ok(r);
        self.image_entries = None;
    }

    pub fn cc_touch(&mut self, t: SystemTime) {
        let p = self.tzdata_path();
        self.set_mtime(&p, t);
    }

    pub fn cc_remove(&mut self) {
        let p = self.tzdata_path();
        let r = fs::remove_file(&p);
        self.ok(r);
        self.image_entries = None;
        self.image_gen += 1;
    }

    // -- the model ----------------------------------------------------------

    fn mtime_of(md: &fs::Metadata) -> Option<i128> {
        let st = md.modified().ok()?;
        // The same representability test jiff applies.
        let ts = jiff::Timestamp::try_from(st).ok()?;
        Some(ts.as_nanosecond())
    }

    /// Re-reads the real disk and records what every universe name now
    /// resolves to. Called after every atomic mutation step with the event
    /// number of that step.
    pub fn snapshot(&mut self, seq: u32) {
        let mut views = Vec::with_capacity(self.universe.len());
        let mut container_ok = true;
        let mut extra_names: Vec<String> = vec![];
        let mut image_ino = 0u64;
        match self.backend {
            Backend::ZoneInfo => {
                for i in 0..self.universe.len() {
                    let p = self.zi_path(&self.universe[i]);
                    let v = match File::open(&p) {
                        Err(e) => {
                            if e.kind() == std::io::ErrorKind::NotFound
                                && fs::symlink_metadata(&p).is_err()
                            {
                                View::Absent
                            } else {
                                // dangling/looping symlink, ENOTDIR, ...
                                View::Unreadable
                            }
                        }
                        Ok(f) => match f.metadata() {
                            Err(_) => View::Unreadable,
                            Ok(md) if md.is_dir() => View::Unreadable,
                            Ok(md) => match fs::read(&p) {
                                Err(_) => View::Unreadable,
                                Ok(bytes) => {
                                    let mtime = Disk::mtime_of(&md);
                                    let content = self.intern(bytes);
                                    let ino = std::os::unix::fs::MetadataExt::ino(&md);
                                    self.note_inode(ino, seq, content);
                                    View::Bytes { content, mtime, ino }
                                }
                            },
                        },
                    };
                    views.push(v);
                }
            }
            Backend::Concatenated => {
                let p = self.tzdata_path();
                let img = fs::read(&p).ok();
                let md = fs::metadata(&p).ok();
                let mtime = md.as_ref().and_then(Disk::mtime_of);
                let ino = md
                    .as_ref()
                    .map(std::os::unix::fs::MetadataExt::ino)
                    .unwrap_or(0);
                if let Some(ref img) = img {
                    let whole = self.intern(img.clone());
                    self.note_inode(ino, seq, whole);
                    image_ino = ino;
                }
                let parsed = img.as_deref().and_then(zonegen::android_parse);
                container_ok = parsed.is_some();
                if let Some(ref entries) = parsed {
                    for e in entries {
                        if !self.universe.contains(&e.0) && !extra_names.contains(&e.0) {
                            extra_names.push(e.0.clone());
                        }
                    }
                }
                for i in 0..self.universe.len() {
                    let v = match parsed {
                        None => View::Absent,
                        Some(ref entries) => {
                            match entries
                                .iter()
                                .find(|e| e.0 == self.universe[i])
                            {
                                None => View::Absent,
                                Some((_, None)) => View::Unreadable,
                                Some((_, Some(blob))) => {
                                    let blob = blob.clone();
                                    let content = self.intern(blob);
                                    View::Bytes { content, mtime, ino }
                                }
                            }
                        }
                    };
                    views.push(v);
                }
            }
            Backend::Bundled => {}
        }
        let mut alias_target = None;
        if let (Backend::ZoneInfo, Some(a)) = (self.backend, self.alias) {
            if let Ok(t) = fs::read_link(self.zi_path(&self.universe[a])) {
                alias_target = (0..self.universe.len())
                    .find(|&m| m != a && self.zi_path(&self.universe[m]) == t);
            }
        }
        if let Some(last) = self.snaps.last() {
            if last.views == views
                && last.container_ok == container_ok
                && last.alias_target == alias_target
                && last.extra_names == extra_names
                && last.image_ino == image_ino
            {
                return;
            }
        }
        self.snaps.push(Snapshot { begin: seq, views, container_ok, alias_target, extra_names, image_ino });
    }

    fn note_inode(&mut self, ino: u64, seq: u32, content: ContentId) {
        let h = self.inode_hist.entry(ino).or_default();
        if h.last().map(|e| e.1) != Some(content) {
            h.push((seq, content));
        }
    }

    /// Records what the file behind an open handle now contains (it may no
    /// longer have a name).
    pub fn note_handle(&mut self, f: &File, seq: u32) {
        let Ok(md) = f.metadata() else { return };
        let ino = std::os::unix::fs::MetadataExt::ino(&md);
        let mut buf = vec![0u8; md.len() as usize];
        if f.read_exact_at(&mut buf, 0).is_err() {
            return;
        }
        let content = self.intern(buf);
        self.note_inode(ino, seq, content);
    }

    /// Contents file `ino` had at some moment in `[lo, hi]`.
    pub fn inode_contents(&self, ino: u64, lo: u32, hi: u32) -> Vec<ContentId> {
        let Some(h) = self.inode_hist.get(&ino) else { return vec![] };
        let end = h.partition_point(|e| e.0 <= hi);
        let start = h[..end].partition_point(|e| e.0 <= lo).saturating_sub(1);
        h[start..end].iter().map(|e| e.1).collect()
    }

    /// Snapshots whose validity interval intersects `[lo, hi]` (event
    /// numbers, inclusive).
    pub fn overlapping(&self, lo: u32, hi: u32) -> &[Snapshot] {
        // First snapshot with begin > hi.
        let end = self.snaps.partition_point(|s| s.begin <= hi);
        // Last snapshot with begin <= lo is the one valid at `lo`.
        let start = self.snaps[..end]
            .partition_point(|s| s.begin <= lo)
            .saturating_sub(1);
        &self.snaps[start..end]
    }

    pub fn index_of(&self, name: &str) -> Option<usize> {
        self.universe.iter().position(|n| n.eq_ignore_ascii_case(name))
    }
}

/// Is a file with these bytes listed by a directory walk (TZif magic)?
pub fn listable_bytes(bytes: &[u8]) -> bool {
    bytes.len() >= 4 && &bytes[..4] == b"TZif"
}
